"""C05 - stream framing: chunking-invariant, ordered, exactly once, progresses.

Decided: loop variant of the framing loop, buffer discipline, isolation of a
bad frame, no silent stop.  Not decided: equality of delivered and sent
sequences for all cut positions (needs execution)."""
from __future__ import annotations

import ast

from ..report import Ctx
from ..srcmodel import AnalysisError
from ..cfg import cfg_of, CFG, Node
from ..atoms import Atomizer, Atom, FlagTracker
from ..effects import effects_of
from ..lockset import call_sites, store_sites
from .. import astutil as A

TECHNIQUE = "CFG loop-variant (cycle progress) + dominance/guard queries + per-iteration path table"
EXPLANATION = (
    "Control-flow analysis of PeerConnection.work_read_queue: (R1) every cycle through the "
    "framing loop head passes a store that shortens _read_buffer by a provably positive "
    "amount, or sets the wait flag tested by the loop, or leaves; (R2) the only stores to "
    "_read_buffer are append-of-dequeued-chunk and drop-prefix of the parsed header's length, "
    "each drop guarded by len(buffer) >= length, the parse slice is exactly [:length], "
    "waiting thresholds equal the header size derived from MessageHeader.from_bytes; (R3) "
    "header and body parse sit in a try/except Exception whose discard edge drops exactly "
    "length bytes; (R4) every exit of the worker is behind the stop flag or preceded by "
    "close(); single producer/consumer of the chunk queue; (R5) the summaries used (header "
    "parse needs 20 bytes, length is masked non-negative) are re-derived from _base.py; (R6) "
    "per-iteration path table: a successfully parsed frame is dropped once and dispatched once, "
    "nothing else is dispatched.")
ASSUMPTIONS = [
    "not decided: delivered sequence == sent sequence for all cut positions (follows from R1-R6 only informally)",
    "queue.Queue is FIFO; bytes slicing semantics of CPython",
    "Message objects are truthy (checked: no __bool__/__len__ on Message)",
]

BUF = "_read_buffer"
QUEUE = "_read_buffer_queue"


def _header_size(ctx: Ctx) -> int:
    """20 = number of unconditional unpack_uint calls in MessageHeader.from_bytes x 4."""
    model = ctx.model
    f = model.func("message._base", "MessageHeader.from_bytes")
    ctx.use(f)
    g = cfg_of(f)
    n = 0
    for node in g.nodes:
        if node.kind == "stmt" and node.has_call("unpack_uint"):
            # unconditional: dominates the exit
            if g.dominated(g.exit, [node]):
                n += sum(1 for c in node.calls() if A.call_name(c).endswith("unpack_uint"))
    up = model.func("message.packer", "Unpacker.unpack_uint")
    ctx.use(up)
    width = None
    for x in ast.walk(up.node):
        if isinstance(x, ast.BinOp) and isinstance(x.op, ast.Add) \
                and isinstance(x.right, ast.Constant) and isinstance(x.right.value, int):
            width = x.right.value
    if not n or width is None:
        raise AnalysisError("cannot derive the header size from MessageHeader.from_bytes")
    return n * width


def run(ctx: Ctx):
    model = ctx.model
    from .common_node import names_resolve
    names_resolve(ctx, "C05-RN")
    from .common_node import received_chunks_are_immutable_bytes
    received_chunks_are_immutable_bytes(ctx, "C05-R9")
    # ---------------- R11 what the framing hands to the decoder is decoded --------------------------
    ctx.rule("C05-R11", "decoding a well-formed frame does not depend on the interpreter's recursion "
                        "limit; the I/O loop can watch every descriptor it is given", floor=2)
    um = model.cls("message._base", "UndefinedMessage")
    rec_f = um.methods.get("_assign_attr_values")
    cons11 = "UndefinedMessage._assign_attr_values:recursion-guarded"
    ctx.inst(cons11, rule="C05-R11")
    if rec_f is not None:
        ctx.use(rec_f)
        par_ = A.parents(rec_f.node)
        for c in A.walk_no_nested(rec_f.node):
            if isinstance(c, ast.Call) and A.call_name(c) == f"self.{rec_f.name}":
                cur, ok = c, False
                while cur in par_:
                    up = par_[cur]
                    if isinstance(up, ast.Try) and any(cur is b for b in up.body) and any(
                            h.type is None or "RecursionError" in ast.unparse(h.type)
                            or ast.unparse(h.type) in ("Exception", "BaseException", "RuntimeError")
                            for h in up.handlers):
                        ok = True
                    cur = up
                if not ok:
                    ctx.fail(cons11, rec_f.loc(c), "UndefinedMessage recurses once per Grouped level without a "
                             "guard: a well-formed frame of an unknown command whose groups nest deeper than "
                             "the recursion limit makes Message.from_bytes raise RecursionError - the reader "
                             "drops the frame as garbage, the message is never delivered", rule="C05-R11")
    nc_ = model.cls("node.node", "Node")
    hc_ = nc_.methods.get("_handle_connections")
    cons12 = "_handle_connections:select#descriptor-range"
    ctx.inst(cons12, rule="C05-R11")
    src_hc = ast.unparse(hc_.node) if hc_ is not None else ""
    node_src = ast.unparse(nc_.node)
    if "select.select" in src_hc and not any(k in node_src for k in ("FD_SETSIZE", "select.poll", "selectors.", ">= 1024")):
        sel = [c for c in ast.walk(hc_.node) if isinstance(c, ast.Call) and A.call_name(c) == "select.select"]
        ctx.fail(cons12, hc_.loc(sel[0]) if sel else hc_.loc(),
                 "the I/O loop uses select.select() and accepts sockets whatever their descriptor number: once "
                 "one socket has descriptor >= 1024 (FD_SETSIZE) every select() raises ValueError, which the "
                 "loop swallows and retries without a pause - nothing is read, written or accepted on ANY "
                 "connection while that socket lives (findings/audit3/C05-1)", rule="C05-R11")
    # "nor stop servicing the connection silently": nothing escapes the reader's thread function
    from . import c14 as _c14
    ctx.include(_c14.run, {"C14-R1"}, "C05-R10",
                "no exception escapes PeerConnection.work_read_queue (an escaping exception ends "
                "the reader thread: the connection stays open and ready, the frames behind are "
                "never delivered)", floor=1,
                constructs=lambda c: c.startswith("PeerConnection.work_read_queue"))
    peer = model.module("node.peer")
    pc = peer.classes.get("PeerConnection")
    if pc is None:
        raise AnalysisError("PeerConnection not found")
    f = pc.methods.get("work_read_queue")
    if f is None:
        raise AnalysisError("PeerConnection.work_read_queue not found")
    ctx.use(f)
    g = cfg_of(f, effects=effects_of(model))
    at = Atomizer(model, peer, pc)
    bufname = f"self.{BUF}"
    lenbuf = f"len({bufname})"
    hsize = _header_size(ctx)
    ctx.note(f"header size derived from MessageHeader.from_bytes: {hsize}")

    # ---- anchors -------------------------------------------------------
    loops = [n for n in g.nodes if n.kind == "loop"]
    inner = [n for n in loops if BUF in ast.unparse(n.ast.test)]
    if len(inner) != 1:
        raise AnalysisError(f"expected one framing loop testing {BUF}, found {len(inner)}")
    head = inner[0]
    outer = [n for n in loops if n is not head and g.can_reach(n, head)]
    if not outer:
        raise AnalysisError("worker loop around the framing loop not found")
    # nodes of the framing loop body = reachable from head without leaving through
    # the loop's false edges ... computed as nodes from which head is reachable and
    # which are reachable from head
    from_head = g.reach([head], include_starts=False, blocked=outer)
    in_loop = {n for n in from_head if head in g.reach([n], include_starts=False,
                                                       blocked=outer)}
    buf_stores = [n for n in g.nodes if n.kind == "stmt"
                  and any(A.dotted(t) == bufname for t in n.stores())]

    def hdr_parse(n: Node):
        return n.kind == "stmt" and any(A.call_name(c) == "MessageHeader.from_bytes"
                                        for c in n.calls())

    def msg_parse(n: Node):
        return n.kind == "stmt" and any(A.call_name(c) == "Message.from_bytes"
                                        for c in n.calls())
    hdr_nodes = [n for n in in_loop if hdr_parse(n)]
    msg_nodes = [n for n in in_loop if msg_parse(n)]
    if len(hdr_nodes) != 1 or len(msg_nodes) != 1:
        raise AnalysisError(f"framing loop must contain one header parse and one message parse "
                            f"(found {len(hdr_nodes)}, {len(msg_nodes)})")
    hdr_node, msg_node = hdr_nodes[0], msg_nodes[0]
    hdr_var = A.dotted(A.store_targets(hdr_node.ast)[0]) if A.store_targets(hdr_node.ast) else ""
    msg_var = A.dotted(A.store_targets(msg_node.ast)[0]) if A.store_targets(msg_node.ast) else ""
    klen = f"{hdr_var}.length"
    flag_names = {hdr_var, msg_var}
    for part in _test_parts(head.ast.test):
        a = at.atom(part)
        if "." not in a.subject and "(" not in a.subject:
            flag_names.add(a.subject)
    tracker = FlagTracker(at, flag_names)
    hdr_arg = [c for c in hdr_node.calls() if A.call_name(c) == "MessageHeader.from_bytes"][0]
    msg_arg = [c for c in msg_node.calls() if A.call_name(c) == "Message.from_bytes"][0]

    # classify buffer stores
    drops, appends, others = [], [], []
    for n in buf_stores:
        st = n.ast
        v = getattr(st, "value", None)
        if isinstance(st, ast.AugAssign) and isinstance(st.op, ast.Add):
            appends.append((n, st.value))
        elif isinstance(v, ast.BinOp) and isinstance(v.op, ast.Add) and A.dotted(v.left) == bufname:
            appends.append((n, v.right))
        elif isinstance(v, ast.Subscript) and A.dotted(v.value) == bufname \
                and isinstance(v.slice, ast.Slice) and v.slice.lower is not None \
                and v.slice.upper is None and v.slice.step is None:
            drops.append((n, v.slice.lower))
        else:
            others.append(n)

    # ------------------------------------------------------------------ R2
    ctx.rule("C05-R2", "buffer discipline: append of the dequeued chunk / drop-prefix of the "
                       "parsed length guarded by len >= length; exact parse slice; thresholds "
                       "= header size", floor=5)
    foreign = [s for s in store_sites(model, BUF)
               if not (s.func.cls is pc and s.func.name in ("__init__", f.name))]
    ctx.inst("stores-outside-worker", sample=[s.where for s in foreign])
    for s in foreign:
        ctx.fail(f"{s.func.qualname}:store({BUF})", s.where,
                 f"{BUF} is stored outside the reader worker ({s.func.qualname})")
    for n in others:
        ctx.inst(f"work_read_queue:store-shape@{_tag(g, n)}")
        ctx.fail(f"work_read_queue:store-shape@{_tag(g, n)}", g.loc(n),
                 f"store to {BUF} is neither append-at-end nor drop-prefix: `{n.text(100)}`")
    for n, operand in appends:
        cons = "work_read_queue:append"
        ctx.inst(cons, sample=n.text(80))
        ok = False
        if isinstance(operand, ast.Name):
            defs = [m for m in g.nodes if m.kind == "stmt"
                    and any(isinstance(t, ast.Name) and t.id == operand.id for t in m.stores())]
            if len(defs) == 1:
                v = getattr(defs[0].ast, "value", None)
                ok = isinstance(v, ast.Call) and isinstance(v.func, ast.Attribute) \
                    and v.func.attr in ("get", "get_nowait") \
                    and A.dotted(v.func.value) == f"self.{QUEUE}"
        if not ok:
            ctx.fail(cons, g.loc(n), f"appended value `{ast.unparse(operand)}` is not the chunk "
                     f"just taken from {QUEUE}")
        if n in in_loop:
            ctx.fail(cons + "#inloop", g.loc(n), "chunk appended inside the framing loop")
    if not appends:
        ctx.fail("work_read_queue:append", f.loc(), f"no append of received chunks to {BUF}")
    for n, bound in drops:
        cons = f"work_read_queue:drop@{_tag(g, n)}"
        ctx.inst(cons, sample=n.text(90))
        if A.dotted(bound) != klen:
            ctx.fail(cons, g.loc(n), f"dropped prefix `{ast.unparse(bound)}` is not the parsed "
                     f"header's length `{klen}`: the stream loses frame alignment")
            continue
        # guarded by  not (length > len(buffer))
        if not at.guarded(g, n, lambda a: False if (a.subject == klen and a.op == ">"
                                                    and a.value == lenbuf) else None):
            ctx.fail(cons + "#guard", g.loc(n),
                     f"drop of {klen} bytes is not guarded by len({BUF}) >= {klen}: bytes of "
                     f"the next frame(s) that have not arrived yet are counted as consumed")
        # the header it uses was parsed from the current buffer in this iteration
        if not g.dominated(n, [hdr_node], tracker=tracker):
            ctx.fail(cons + "#header", g.loc(n), "drop is reachable without a completed header parse")
    if not drops:
        ctx.fail("work_read_queue:drop", f.loc(), "no drop-prefix store: consumed frames stay in the buffer")
    # parse arguments
    ctx.inst("work_read_queue:header-arg", sample=ast.unparse(hdr_arg))
    if not (len(hdr_arg.args) == 1 and A.dotted(hdr_arg.args[0]) == bufname):
        ctx.fail("work_read_queue:header-arg", g.loc(hdr_node),
                 f"header is not parsed from the start of {BUF}: `{ast.unparse(hdr_arg)}`")
    ctx.inst("work_read_queue:message-slice", sample=ast.unparse(msg_arg))
    a0 = msg_arg.args[0] if msg_arg.args else None
    ok = (isinstance(a0, ast.Subscript) and A.dotted(a0.value) == bufname
          and isinstance(a0.slice, ast.Slice) and a0.slice.lower is None
          and a0.slice.step is None and a0.slice.upper is not None
          and A.dotted(a0.slice.upper) == klen and len(msg_arg.args) == 1 and not msg_arg.keywords)
    if not ok:
        ctx.fail("work_read_queue:message-slice", g.loc(msg_node),
                 f"message is not parsed from exactly {BUF}[:{klen}]: `{ast.unparse(msg_arg)}`")
    if not at.guarded(g, msg_node, lambda a: False if (a.subject == klen and a.op == ">"
                                                       and a.value == lenbuf) else None):
        ctx.fail("work_read_queue:message-slice#guard", g.loc(msg_node),
                 f"message parse is not guarded by len({BUF}) >= {klen}: an incomplete frame is "
                 f"parsed (and discarded as garbage)")
    # thresholds: every comparison of len(buffer) with an integer constant
    for n in g.nodes:
        if n.kind != "test":
            continue
        t = n.ast
        if isinstance(t, ast.Compare) and any(ast.unparse(x) == lenbuf
                                              for x in [t.left] + t.comparators):
            consts = [model.try_fold(x, peer, pc) for x in [t.left] + t.comparators]
            ints = [c for c in consts if isinstance(c, int) and not isinstance(c, bool)]
            if not ints:
                continue
            cons = f"work_read_queue:threshold@{_tag(g, n)}"
            ctx.inst(cons, sample=n.text(60))
            if any(c not in (0, hsize) for c in ints):
                ctx.fail(cons, g.loc(n), f"`{n.text(60)}` compares the buffer length with "
                         f"{ints}; the only meaningful thresholds are 0 and the header size "
                         f"{hsize} (a complete {hsize}-byte message would wait for ever / a "
                         f"partial header would be parsed)")
            else:
                _check_threshold(ctx, g, n, t, lenbuf, hsize, cons)

    # ------------------------------------------------------------------ R7
    ctx.rule("C05-R7", "after a chunk was appended the framing loop is entered unless the buffer "
                       "is shorter than a header", floor=1)
    for n, operand in appends:
        cons = "work_read_queue:framing-entered"
        ctx.inst(cons)
        short = g.guard_edges(lambda t: at.label_when(
            t, lambda a: True if (a.op == ">" and a.value == lenbuf and _int(a.subject) == hsize) else
            (False if (a.op == ">" and a.subject == lenbuf and _int(a.value) == hsize - 1) else None)))
        r = g.reach([d for l, d in n.succ if l != "exc"], blocked=[head], blocked_edges=short)
        if any(o in r for o in outer) or g.exit in r:
            ctx.fail(cons, g.loc(n), f"after appending a received chunk the worker can go back to "
                     f"waiting for the next chunk without looking at the buffer although it holds "
                     f">= {hsize} bytes (the skip is not conditioned on len({BUF}) < {hsize}): a "
                     f"message whose last bytes arrive in a short read stays undelivered until more "
                     f"data comes, which on an idle link is never")

    # ------------------------------------------------------------------ R8
    ctx.rule("C05-R8", "a header is only parsed after the buffer length has been compared with "
                       "the header size since the last change of the buffer", floor=2)
    thr_nodes = [n for n in g.nodes if n.kind == "test" and isinstance(n.ast, ast.Compare)
                 and any(ast.unparse(x) == lenbuf for x in [n.ast.left] + n.ast.comparators)
                 and hsize in [model.try_fold(x, peer, pc) for x in [n.ast.left] + n.ast.comparators]]
    for n in buf_stores:
        cons = f"work_read_queue:length-check-before-header@{_tag(g, n)}"
        ctx.inst(cons)
        r = g.reach([d for l, d in n.succ if l != "exc"], blocked=thr_nodes)
        if hdr_node in r:
            ctx.fail(cons, g.loc(n), f"after `{n.text(60)}` the next header is parsed without the "
                     f"buffer length having been compared with the header size {hsize}: a tail of "
                     f"1..{hsize - 1} bytes of the following frame (read boundary inside its header) "
                     f"fails to parse and the connection is closed as 'only garbage' instead of "
                     f"waiting for the rest of the frame")

    # ------------------------------------------------------------------ R1
    ctx.rule("C05-R1", "every cycle of the framing loop shortens the buffer by a positive "
                       "amount, sets the wait flag, or leaves", floor=1)
    # flag variables: locals X such that the loop test requires  X is False / not X
    flags = {}
    for n in g.nodes:
        if n.kind == "test" and n.ast in _test_parts(head.ast.test):
            a = at.node_atom(n)
            if a and isinstance(n.ast, (ast.Compare, ast.Name)) and "." not in a.subject \
                    and "(" not in a.subject:
                # loop continues while atom has truth `cont`
                cont_label = [l for l, d in n.succ if d in in_loop or d is head]
                flags[a.subject] = (a, n)
    progress: list[Node] = []
    why: dict[int, str] = {}
    for n, bound in drops:
        ok, reason = _positive(ctx, g, at, n, bound, klen, msg_node, hsize)
        if ok:
            progress.append(n)
            why[n.id] = reason
    flag_stores = []
    for n in in_loop:
        if n.kind == "stmt":
            for t in n.stores():
                if isinstance(t, ast.Name) and t.id in flags:
                    a, tn = flags[t.id]
                    v = getattr(n.ast, "value", None)
                    val = model.try_fold(v, peer, pc, default="?") if v is not None else "?"
                    # the loop continues while (atom is true) ^ flip ... evaluate the atom on val
                    if val != "?" and not _atom_truth_for_continue(a, tn, val, in_loop, head):
                        flag_stores.append(n)
    progress += flag_stores
    body_succ = [d for l, d in head.succ]
    r = g.reach(body_succ, normal_blocked=progress, blocked=outer)
    cons = "work_read_queue:framing-loop"
    ctx.inst(cons, sample={"progress_nodes": [f"{g.loc(n)}: {n.text(70)}" for n in progress],
                           "positive_because": list(why.values())})
    if head in r:
        # find a witness cycle
        steps = _witness(g, head, progress, outer)
        bad_drops = [(n, b) for n, b in drops if n not in progress]
        extra = ""
        if bad_drops:
            n, b = bad_drops[0]
            extra = (f"; the drop at {g.loc(n)} removes `{ast.unparse(b)}` bytes, which is not "
                     f"proven positive (a header whose length field is 0 discards 0 bytes)")
        where = g.loc(bad_drops[0][0]) if bad_drops else g.loc(head)
        key = f"work_read_queue:framing-loop-cycle@{_tag(g, bad_drops[0][0])}" if bad_drops \
            else "work_read_queue:framing-loop-cycle"
        ctx.fail(key, where,
                 "the framing loop has a cycle that neither consumes input, nor sets the wait "
                 "flag, nor leaves: the reader thread spins without progress" + extra,
                 steps=steps)

    # ------------------------------------------------------------------ R3
    ctx.rule("C05-R3", "header and body parse are isolated by try/except Exception; the "
                       "discard edge drops exactly the frame and continues", floor=2)
    for nm, n in (("header-parse", hdr_node), ("message-parse", msg_node)):
        cons = f"work_read_queue:{nm}-isolated"
        ctx.inst(cons)
        ok = False
        for tr in reversed([x for x in n.lexical if isinstance(x, ast.Try)]):
            inside = any(tr is x for x in ast.walk(head.ast))
            catch_all = any(h.type is None or ast.unparse(h.type) in ("Exception", "BaseException")
                            for h in tr.handlers)
            if inside and catch_all:
                ok = True
                break
        if ok and any(d.kind == "raise" for l, d in n.succ if l == "exc"):
            ok = False
        if not ok:
            ctx.fail(cons, g.loc(n), f"{nm} is not inside a try/except Exception of the framing "
                     f"loop: one undecodable frame terminates the reader thread")

    # ------------------------------------------------------------------ R4
    ctx.rule("C05-R4", "no silent stop: exits are behind the stop flag or preceded by close(); "
                       "single producer / consumer of the chunk queue", floor=3)
    cons = "work_read_queue:exits"
    ctx.inst(cons)
    stop_edges = g.guard_edges(lambda n: at.label_when(
        n, lambda a: True if (a.op == "truthy" and a.subject.endswith(".is_stopped")) else None))
    closes = [n for n in g.nodes if n.kind == "stmt"
              and any(A.call_name(c) == "self.close" for c in n.calls())]
    r = g.reach([g.entry], blocked_edges=stop_edges, normal_blocked=closes)
    if g.exit in r:
        # witness: last node before exit
        preds = [p for l, p in g.exit.pred if p in r]
        p = preds[0] if preds else g.exit
        ctx.fail(cons, g.loc(p), "the reader worker can return without the stop flag being set "
                 "and without closing the connection: the connection is silently no longer "
                 f"serviced (`{p.text(60)}`)")
    if not stop_edges:
        ctx.fail(cons + "#stopflag", f.loc(), "worker loop never tests _thread.is_stopped")
    # ... nor die: whatever the message handler lets escape is caught in the loop
    cons = "work_read_queue:handler-isolated"
    ctx.inst(cons)
    par = A.parents(f.node)
    dcalls = [n for n in A.walk_no_nested(f.node) if isinstance(n, ast.Call)
              and A.call_name(n).endswith("__dispatch_message")]
    if not dcalls:
        ctx.error("work_read_queue does not call __dispatch_message", rule="C05-R4")
    for c in dcalls:
        cur, ok_ = c, False
        while cur in par:
            up = par[cur]
            if isinstance(up, ast.Try) and cur in up.body and any(
                    h.type is None or ast.unparse(h.type) in ("Exception", "BaseException")
                    for h in up.handlers):
                ok_ = True
                break
            cur = up
        if not ok_:
            ctx.fail(cons, f.loc(c), "the message handler is called outside any try/except Exception "
                     "of the reader loop: an exception it lets escape (e.g. raised before the "
                     "node's own try block, or inside its error handler) terminates the reader "
                     "thread - the connection stays open and READY but is never read again")
    getters = [c for c in call_sites(model, "get") + call_sites(model, "get_nowait")
               if c.receiver.endswith("." + QUEUE)]
    putters = [c for c in call_sites(model, "put") + call_sites(model, "put_nowait")
               if c.receiver.endswith("." + QUEUE)]
    ctx.inst("chunk-queue:consumer", sample=[c.where for c in getters])
    if len(getters) != 1 or getters[0].func is not f:
        ctx.fail("chunk-queue:consumer", getters[1].where if len(getters) > 1 else f.loc(),
                 f"{QUEUE} must have exactly one consumer (the reader worker), found {len(getters)}")
    ctx.inst("chunk-queue:producer", sample=[c.where for c in putters])
    if len(putters) != 1 or putters[0].func.cls is not pc:
        ctx.fail("chunk-queue:producer", putters[0].where if putters else f.loc(),
                 f"{QUEUE} must have exactly one producer (add_in_bytes), found {len(putters)}")
    else:
        pf = putters[0].func
        params = [a.arg for a in pf.node.args.args][1:]
        arg = putters[0].node.args[0] if putters[0].node.args else None
        if not (isinstance(arg, ast.Name) and arg.id in params):
            ctx.fail("chunk-queue:producer#arg", putters[0].where,
                     "the producer does not enqueue the received bytes unchanged")
    init = pc.methods["__init__"]
    qctor = None
    for n in A.walk_no_nested(init.node):
        if isinstance(n, (ast.Assign, ast.AnnAssign)) and getattr(n, "value", None) is not None:
            for t in A.store_targets(n):
                if isinstance(t, ast.Attribute) and t.attr == QUEUE:
                    qctor = n.value
    ctx.inst("chunk-queue:type")
    if not (isinstance(qctor, ast.Call) and A.call_name(qctor) in ("queue.Queue", "Queue")
            and not qctor.args and not qctor.keywords):
        ctx.fail("chunk-queue:type", init.loc(), f"{QUEUE} must be an unbounded FIFO queue.Queue()")

    from . import c14
    ctx.include(c14.run, {"C14-R3"}, "C05-R4b",
                "the reader worker is started once, stopped by close(), never joins itself, and its "
                "blocking wait has a time-out", floor=6)

    from . import c04
    ctx.include(c04.run, {"C04-R2"}, "C05-R4c",
                "the decoder called by the framing loop always moves forward: every AVP loop "
                "consumes input per iteration and nothing it calls repositions the cursor (a "
                "frame that never finishes decoding stops the reader thread for good)", floor=3)

    # ------------------------------------------------------------------ R5
    ctx.rule("C05-R5", "summaries: Message.from_bytes parses the header first, outside any "
                       "try; the length field is masked to 24 bits", floor=2)
    mfb = model.func("message._base", "Message.from_bytes")
    ctx.use(mfb)
    mg = cfg_of(mfb)
    cons = "Message.from_bytes:header-first"
    ctx.inst(cons)
    hn = [n for n in mg.nodes if n.kind == "stmt"
          and any(A.call_name(c) == "MessageHeader.from_bytes" for c in n.calls())]
    param = [a.arg for a in mfb.node.args.args][1] if len(mfb.node.args.args) > 1 else None
    if not (len(hn) == 1 and mg.dominated(mg.exit, hn) and not hn[0].lexical
            and A.dotted([c for c in hn[0].calls()
                          if A.call_name(c) == "MessageHeader.from_bytes"][0].args[0]) == param):
        ctx.fail(cons, mfb.loc(), "Message.from_bytes does not unconditionally parse the header "
                 "of its argument first (success would no longer imply >= 20 bytes)")
    hfb = model.func("message._base", "MessageHeader.from_bytes")
    cons = "MessageHeader.from_bytes:length-mask"
    ctx.inst(cons)
    ok = False
    hcls = hfb.cls
    hinit = hcls.methods.get("__init__") if hcls else None
    ctor_calls = [n for n in ast.walk(hfb.node) if isinstance(n, ast.Call)
                  and A.call_name(n) in ("MessageHeader", "cls")]
    if hinit is not None and ctor_calls:
        ip = [a.arg for a in hinit.node.args.args][1:]
        bound = dict(zip(ip, [A.dotted(a) for a in ctor_calls[0].args]))
        for k in ctor_calls[0].keywords:
            bound[k.arg] = A.dotted(k.value)
        lv = bound.get("length")
        for n in ast.walk(hfb.node):
            if isinstance(n, ast.Assign) and any(A.dotted(t) == lv for t in n.targets):
                v = n.value
                if isinstance(v, ast.BinOp) and isinstance(v.op, ast.BitAnd) \
                        and model.try_fold(v.right, hfb.module) == 0x00ffffff:
                    ok = True
    if not ok:
        ctx.fail(cons, hfb.loc(), "header length is not `word & 0x00ffffff` (non-negative 24-bit)")

    # ------------------------------------------------------------------ R6
    _iteration_paths(ctx, g, at, head, in_loop, outer, hdr_node, msg_node, msg_var,
                     [n for n, _ in drops], klen, tracker)
    mcls = model.cls("message._base", "Message")
    ctx.inst("Message:truthy", rule="C05-R6")
    for c in [mcls] + model.subclasses(mcls):
        if "__bool__" in c.methods or "__len__" in c.methods:
            ctx.fail("Message:truthy", c.loc(), f"{c.name} defines __bool__/__len__: "
                     f"`if message:` may skip the dispatch of a parsed message", rule="C05-R6")
            break


def _tag(g: CFG, n: Node) -> str:
    """A stable (position independent) tag for a node: the enclosing construct."""
    if any(isinstance(x, ast.Try) for x in n.lexical):
        return "try-body"
    # inside an except handler?
    par = A.parents(g.fn)
    x = n.ast
    while x in par:
        x = par[x]
        if isinstance(x, ast.ExceptHandler):
            return "except-handler"
    return "loop-body"


def _test_parts(test: ast.expr) -> list[ast.expr]:
    if isinstance(test, ast.BoolOp):
        out = []
        for v in test.values:
            out += _test_parts(v)
        return out
    if isinstance(test, ast.UnaryOp) and isinstance(test.op, ast.Not):
        return _test_parts(test.operand)
    return [test]


def _atom_truth_for_continue(a: Atom, tn: Node, val, in_loop, head) -> bool:
    """Would storing *val* into the flag keep the loop running?"""
    if a.op == "is":
        truth = val is a.value
    elif a.op == "==":
        truth = val == a.value
    elif a.op == "truthy":
        truth = bool(val)
    else:
        return True
    t_on_T = truth ^ a.flip
    label = "T" if t_on_T else "F"
    dst = [d for l, d in tn.succ if l == label][0]
    return dst in in_loop or dst is head


def _positive(ctx, g: CFG, at: Atomizer, n: Node, bound: ast.expr, klen: str,
              msg_node: Node, hsize: int):
    """Is the dropped amount proven >= 1 at node n?"""
    k = ast.unparse(bound)

    def pos_guard(a: Atom):
        # k > c  (c >= 0) true
        if a.subject == k and a.op == ">":
            c = _int(a.value)
            if c is not None and c >= 0:
                return True
        # c > k  false  =>  k >= c  (c >= 1)
        if a.value == k and a.op == ">":
            c = _int(a.subject)
            if c is not None and c >= 1:
                return False
        if a.subject == k and a.op == "truthy":
            return True
        if a.subject == k and a.op == "==" and a.value == 0:
            return False
        return None
    if at.guarded(g, n, pos_guard):
        return True, f"{g.loc(n)}: guarded by a test implying {k} > 0"
    if k == klen and g.dominated(n, [msg_node]):
        return True, (f"{g.loc(n)}: post-dominates a successful Message.from_bytes(buf[:{k}]) "
                      f"which raises unless {hsize} bytes are present")
    return False, ""


def _int(s):
    try:
        return int(str(s), 0)
    except Exception:
        return None


def _witness(g: CFG, head: Node, progress, outer) -> list[str]:
    blocked = set(progress)
    for paths in [g.paths(start=d, stop=lambda n: n is head, bound=400, max_visits=1)
                  for l, d in head.succ]:
        for p in paths:
            nodes = [n for n, _ in p]
            if nodes[-1] is head and not any(
                    (n in blocked and lab != "exc") for n, lab in p) \
                    and not any(n in outer for n in nodes):
                return g.describe(p)
    return []


def _check_threshold(ctx, g, n, t: ast.Compare, lenbuf, hsize, cons):
    """`len < H`, `0 < len < H`, `len > 0` style tests only."""
    parts = [ast.unparse(x) for x in [t.left] + t.comparators]
    ops = [type(o).__name__ for o in t.ops]
    s = " ".join(ast.unparse(t).split())
    ok_forms = {
        f"{lenbuf} < {hsize}", f"{lenbuf} >= {hsize}", f"{lenbuf} > 0", f"{lenbuf} == 0",
        f"0 < {lenbuf} < {hsize}", f"{hsize} > {lenbuf}", f"{hsize} <= {lenbuf}",
        f"0 < {lenbuf}", f"{lenbuf} != 0", f"{hsize} > {lenbuf} > 0",
    }
    norm = s
    for x in [t.left] + t.comparators:
        v = ctx.model.try_fold(x, ctx.model.module("node.peer"))
        if isinstance(v, int) and not isinstance(v, bool):
            norm = norm.replace(ast.unparse(x), str(v))
    if norm not in ok_forms:
        ctx.fail(cons, g.loc(n), f"`{s}`: off-by-one against the header size {hsize} "
                 f"(accepted: len < {hsize}, 0 < len < {hsize}, len > 0)")


def _iteration_paths(ctx, g: CFG, at, head, in_loop, outer, hdr_node, msg_node, msg_var,
                     drop_nodes, klen, tracker):
    ctx.rule("C05-R6", "per-iteration path table: parsed frame => exactly one drop of its length "
                       "and one dispatch; no dispatch otherwise", floor=4)
    disp = [n for n in in_loop if n.kind == "stmt"
            and any(A.call_name(c).endswith("dispatch_message") for c in n.calls())]
    if not disp:
        ctx.error("no dispatch call in the framing loop")
        return
    dn = disp[0]
    for d in disp:
        for dcall in [c for c in d.calls() if A.call_name(c).endswith("dispatch_message")]:
            ctx.inst("work_read_queue:dispatch-arg", sample=ast.unparse(dcall))
            if not (len(dcall.args) == 1 and A.dotted(dcall.args[0]) == msg_var):
                ctx.fail("work_read_queue:dispatch-arg", g.loc(d),
                         f"dispatched object `{ast.unparse(dcall)}` is not the message just parsed")
    starts = [d for l, d in head.succ]
    n_paths = 0
    for s in starts:
        for p in g.paths(start=s, stop=lambda n: n is head or n in outer, bound=3000,
                         tracker=tracker):
            # only iterations that enter the body (pass the header parse)
            nodes = [n for n, _ in p]
            if hdr_node not in nodes:
                continue
            n_paths += 1
            done = lambda n: any(m is n and lab != "exc" for m, lab in p)
            parsed = done(msg_node)
            n_drop = sum(1 for m, lab in p if m in drop_nodes and lab != "exc")
            n_disp = sum(1 for m, lab in p if m in disp)
            cons = "work_read_queue:iteration-path"
            ctx.inst(cons, nontrivial=False)
            if parsed and (n_drop != 1 or n_disp != 1):
                # is the path feasible w.r.t. the message flag?  `if message:` false
                # after a successful parse is infeasible (Message is truthy)
                dec = at.decisions(p)
                if any(a.subject == msg_var and a.op == "truthy" and not t for a, t in dec):
                    continue
                ctx.fail("work_read_queue:parsed-frame-path", g.loc(msg_node),
                         f"a path on which a frame was parsed drops {n_drop} time(s) and "
                         f"dispatches {n_disp} time(s); expected exactly once each "
                         f"(message lost or delivered twice)", steps=g.describe(p))
            if not parsed and n_disp:
                dec = at.decisions(p)
                # message var is None on this path (reset at iteration start): truthy test
                # taken true is infeasible
                if any(a.subject == msg_var and a.op == "truthy" and t for a, t in dec):
                    continue
                ctx.fail("work_read_queue:unparsed-dispatch-path", g.loc(dn),
                         "a message is dispatched on a path without a successful parse in "
                         "this iteration (stale message delivered again)", steps=g.describe(p))
            if not parsed and n_drop > 1:
                ctx.fail("work_read_queue:double-drop-path", g.loc(hdr_node),
                         "two drops in one iteration", steps=g.describe(p))
    ctx.note(f"framing-loop iteration paths enumerated: {n_paths}")
    # the message variable is reset at the start of every iteration
    ctx.inst("work_read_queue:message-reset")
    resets = [n for n in in_loop if n.kind == "stmt" and isinstance(n.ast, ast.Assign)
              and any(A.dotted(t) == msg_var for t in A.store_targets(n.ast))
              and isinstance(n.ast.value, ast.Constant) and n.ast.value.value is None]
    if not resets or not all(g.dominated(d, resets) for d in disp):
        ctx.fail("work_read_queue:message-reset", g.loc(dn),
                 f"`{msg_var}` is not reset to None at the start of each iteration: a frame "
                 f"that fails to parse re-dispatches the previous message")
    else:
        # the reset must happen after the previous dispatch: every cycle dn -> dn passes a reset
        r = g.reach([dn], include_starts=False, normal_blocked=resets)
        if dn in r:
            ctx.fail("work_read_queue:message-reset", g.loc(dn),
                     f"a cycle from one dispatch to the next does not reset `{msg_var}`")
