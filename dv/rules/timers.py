"""Decision table of Node._check_timers, shared by C11 (watchdog) and C06 (CE time-outs)."""
from __future__ import annotations

import ast

from ..srcmodel import AnalysisError
from ..cfg import cfg_of
from ..atoms import Atomizer, must_facts
from .. import astutil as A


class TimerTable:
    def __init__(self, ctx):
        model = ctx.model
        self.model = model
        nc = model.cls("node.node", "Node")
        f = nc.methods.get("_check_timers")
        if f is None:
            raise AnalysisError("Node._check_timers not found")
        ctx.use(f)
        self.f = f
        self.g = cfg_of(f)
        self.at = Atomizer(model, f.module, nc)
        self.conn = [a.arg for a in f.node.args.args][1]
        self.peer_mod = model.module("node.peer")
        # timeout locals -> configuration attribute
        self.local_cfg: dict[str, dict] = {}
        self.peer_var = None
        for n in A.walk_no_nested(f.node):
            if isinstance(n, ast.Assign) and len(n.targets) == 1 and isinstance(n.targets[0], ast.Name):
                nm = n.targets[0].id
                v = n.value
                if isinstance(v, ast.Attribute) and A.dotted(v.value) == "self" \
                        and v.attr.endswith("_timeout"):
                    self.local_cfg.setdefault(nm, {})["node"] = v.attr
                    self.local_cfg[nm]["node_stmt"] = n
                elif isinstance(v, ast.BoolOp) and isinstance(v.op, ast.Or) and len(v.values) == 2 \
                        and isinstance(v.values[0], ast.Attribute) \
                        and v.values[0].attr.endswith("_timeout") \
                        and isinstance(v.values[1], ast.Name) and v.values[1].id == nm:
                    self.local_cfg.setdefault(nm, {})["peer"] = v.values[0].attr
                    self.local_cfg[nm]["peer_recv"] = A.dotted(v.values[0].value)
                    self.local_cfg[nm]["peer_stmt"] = n
                elif isinstance(v, ast.Call) and A.call_name(v).endswith("_find_connection_peer"):
                    self.peer_var = nm
                    self.peer_def = v
                elif isinstance(v, ast.Call) and "peers" in ast.unparse(v):
                    self.peer_var = nm
                    self.peer_def = v
        self.actions = []     # (node, kind, detail)
        for n in self.g.nodes:
            if n.kind != "stmt":
                continue
            for c in n.calls():
                nm = A.call_name(c)
                if nm == "self.send_dwr":
                    self.actions.append((n, "send_dwr", c))
                elif nm == "self.close_connection_socket":
                    self.actions.append((n, "close", c))
                elif nm.startswith("self.") and nm.split(".")[-1].startswith(("send_", "close", "remove_")):
                    self.actions.append((n, nm.split(".")[-1], c))

    def facts(self, node):
        return must_facts(self.g, self.at, node)

    def cfg_of_local(self, name: str):
        """'idle_timeout' etc.: the configuration attribute a comparison operand denotes."""
        if name in self.local_cfg:
            return self.local_cfg[name]
        return None

    def state_const(self, name: str):
        return self.model.fold_name(self.peer_mod, name)

    def reason(self, call: ast.Call):
        arg = None
        if len(call.args) >= 2:
            arg = call.args[1]
        for k in call.keywords:
            if k.arg == "disconnect_reason":
                arg = k.value
        if arg is None:
            return None
        return self.model.try_fold(arg, self.f.module)

    def timeout_fact(self, facts, elapsed_attr: str):
        """(config-attr dict) of the strict comparison  conn.<elapsed_attr> > <timeout local>  that
        is known true, or None."""
        for (subj, op, val, truth) in facts:
            if op == ">" and truth and subj == f"{self.conn}.{elapsed_attr}":
                cfg = self.cfg_of_local(str(val))
                if cfg is not None:
                    return cfg
        return None

    def check_overrides(self, ctx, names, rule):
        """peer.<t> or <node default>  for each timeout in *names*, peer from _find_connection_peer."""
        for t in names:
            cons = f"_check_timers:override({t})"
            ctx.inst(cons, rule=rule)
            loc = [nm for nm, c in self.local_cfg.items() if c.get("node") == t]
            if not loc:
                ctx.fail(cons, self.f.loc(), f"node default self.{t} is not read by _check_timers",
                         rule=rule)
                continue
            c = self.local_cfg[loc[0]]
            if c.get("peer") != t or c.get("peer_recv") != self.peer_var:
                ctx.fail(cons, self.f.loc(c.get("peer_stmt") or c["node_stmt"]),
                         f"the per-peer {t} does not take precedence over the node default "
                         f"(expected `{loc[0]} = <peer>.{t} or {loc[0]}`)", rule=rule)
                continue
            # ... and what is compared is the configured value itself: nothing else re-binds the
            # local (a clamp to the wake-up interval, a floor, a jitter, a scale factor would make
            # the configured - in particular the per-peer - setting not the one that applies)
            for x in A.walk_no_nested(self.f.node):
                tg = []
                if isinstance(x, (ast.Assign, ast.AnnAssign, ast.AugAssign)):
                    tg = A.store_targets(x)
                elif isinstance(x, ast.NamedExpr):
                    tg = [x.target]
                if any(isinstance(t_, ast.Name) and t_.id == loc[0] for t_ in tg) \
                        and x is not c.get("peer_stmt") and x is not c.get("node_stmt"):
                    ctx.fail(cons + "#as-configured", self.f.loc(x),
                             f"`{ast.unparse(x)[:70]}` replaces the configured {t}: the deadline that is "
                             f"compared is no longer `peer.{t} or node.{t}` - a per-peer (or node) setting "
                             f"smaller or larger than the substituted value silently does not apply (no "
                             f"DWR after the idle timeout, no close after the DWA timeout)", rule=rule,
                             expected=f"{loc[0]} = self.{t}; {loc[0]} = peer.{t} or {loc[0]}",
                             observed=ast.unparse(x)[:120])
            # the override happens whenever a peer is found
            st = [n for n in self.g.nodes if n.ast is c["peer_stmt"]]
            if st:
                facts = self.facts(st[0])
                extra = [f for f in facts if not (f[0] == self.peer_var and f[1] in ("truthy", "is"))
                         and not f[0].endswith("_stopping")]
                if extra:
                    ctx.fail(cons, self.g.loc(st[0]), f"the per-peer {t} override is only applied "
                             f"under {extra}", rule=rule)
        peer_cls = self.model.cls("node.peer", "Peer")
        for t in names:
            cons = f"Peer.{t}:default"
            ctx.inst(cons, rule=rule)
            v = peer_cls.class_assigns.get(t)
            val = self.model.try_fold(v, peer_cls.module, peer_cls, default="?") if v is not None else "?"
            if val is not None:
                ctx.fail(cons, peer_cls.loc(), f"Peer.{t} defaults to {val!r} instead of None: the "
                         f"`peer.{t} or node.{t}` fall-back always takes the per-peer value and the "
                         f"node-level {t} is ignored for every configured peer", rule=rule)
        # ... and stays None until the user sets it: nothing in the package fills the per-peer
        # field from the node-level setting (the node-level value is read when a timer is checked,
        # so that changing it applies to every peer that has no setting of its own)
        for t in names:
            cons = f"Peer.{t}:not-prefilled"
            ctx.inst(cons, rule=rule)
            for f in self.model.all_funcs():
                if ".node" not in f.module.name:
                    continue
                for n in ast.walk(f.node):
                    vals = []
                    if isinstance(n, ast.Call) and A.call_name(n).split(".")[-1] == "Peer":
                        vals = [k.value for k in n.keywords if k.arg == t]
                    elif isinstance(n, ast.Assign) and any(
                            isinstance(x, ast.Attribute) and x.attr == t and A.dotted(x.value) not in ("self",)
                            for x in n.targets):
                        vals = [n.value]
                    for v in vals:
                        src = [x for x in ast.walk(v) if isinstance(x, ast.Attribute) and x.attr == t
                               and f.cls is not None and f.cls.name == "Node" and A.dotted(x.value) == "self"]
                        if src:
                            ctx.fail(cons, f.loc(n), f"{f.qualname} fills the per-peer {t} from the node "
                                     f"default (`{ast.unparse(v)[:60]}`): `peer.{t} or node.{t}` never "
                                     f"falls back to the node-level value again - a {t} set on the node "
                                     f"after the peer was added is ignored for that peer", rule=rule,
                                     expected="None unless the caller passed a value",
                                     observed=ast.unparse(v)[:60])
        cons = "_check_timers:peer-lookup"
        ctx.inst(cons, rule=rule)
        if self.peer_var is None or not A.call_name(self.peer_def).endswith("_find_connection_peer") \
                or [ast.unparse(a) for a in self.peer_def.args] != [self.conn]:
            ctx.fail(cons, self.f.loc(), "the peer whose timer overrides apply is not looked up with "
                     "_find_connection_peer(conn) (by configured node name, then host identity): "
                     "overrides are lost before the CEA arrives or when the Origin-Host differs in "
                     "case from the configured name", rule=rule)
