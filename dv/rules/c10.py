"""C10 - requests go only to eligible ready peers; answers return to their sender."""
from __future__ import annotations

import ast

from ..report import Ctx
from ..srcmodel import AnalysisError
from ..cfg import cfg_of
from ..atoms import Atomizer, FlagTracker, must_facts
from ..lockset import call_sites
from .. import astutil as A
from .common_node import (ready_constants, identity_semantics, route_lists_not_aliased,
                          peer_connection_ownership)

TECHNIQUE = "def-use and filter-shape analysis of route_request; CFG ordering (waiter registered " \
            "before send, removed in finally); delivery def-use in _receive_app_answer"
EXPLANATION = (
    "Selection shape of Node.route_request decided from the AST/CFG: the candidate list is "
    "the route entry of (destination realm, application) with fallback to '_default' only when "
    "the application has no entry; the list given to the selection callback (or indexed with "
    "[0]) is that list filtered by `peer.connection and state in PEER_READY_STATES`; "
    "NotRoutable is raised when either list is empty, before any store; the hop-by-hop id is "
    "drawn from the selected connection's generator only when the header field is zero; the "
    "pending-answer key contains both identifiers and maps to the calling application. "
    "_receive_app_answer delivers to the application stored under that key and to no other; "
    "Application.receive_answer hands the answer to the waiter registered under its hop-by-hop "
    "id, else to the same application's handle_answer; send_request registers its waiter before "
    "the request is sent and removes it in a finally clause.")
ASSUMPTIONS = [
    "not decided: the whole schedules half (the blocked sender gets exactly its answer under every "
    "interleaving, late/duplicate answers, time-outs) beyond the ordering/pairing obligations listed",
    "threading.Event wait/set semantics",
]


def _waiter_key(fn: ast.FunctionDef, msg: str):
    """(key text as written, resolved key text with the message variable normalised, header
    fields it mentions) of the expression that indexes self._answer_waiting in *fn*."""
    keys = []
    for n in A.walk_no_nested(fn):
        if isinstance(n, ast.Subscript) and A.dotted(n.value) == "self._answer_waiting":
            keys.append(n.slice)
        elif isinstance(n, ast.Compare) and len(n.ops) == 1 and isinstance(n.ops[0], (ast.In, ast.NotIn)) \
                and A.dotted(n.comparators[0]) == "self._answer_waiting":
            keys.append(n.left)
        elif isinstance(n, ast.Call) and isinstance(n.func, ast.Attribute) and n.func.attr in ("pop", "get") \
                and A.dotted(n.func.value) == "self._answer_waiting" and n.args:
            keys.append(n.args[0])
    texts = {ast.unparse(k) for k in keys}
    if len(texts) != 1:
        return None, None, set(), sorted(texts)
    k = keys[0]
    res = A.resolve_local_chain(fn, k).replace(msg + ".", "<msg>.")
    fields = {f_ for f_ in ("hop_by_hop_identifier", "end_to_end_identifier")
              if f"<msg>.header.{f_}" in res}
    return ast.unparse(k), res, fields, sorted(texts)


def run(ctx: Ctx):
    model = ctx.model
    from .common_node import names_resolve
    names_resolve(ctx, "C10-RN")
    from . import c08 as _c08
    ctx.include(_c08.run, {"C08-R5"}, "C10-R12",
                "add_application files every peer under its own realm and the realms given, each "
                "with a list of its own (the table route_request selects from)", floor=1)
    from .recvmsg import received_messages_reach_dispatch
    received_messages_reach_dispatch(ctx, "C10-R11d", answers=True, requests=False)
    nc = model.cls("node.node", "Node")
    peer_mod = model.module("node.peer")
    READY = frozenset(model.fold_name(peer_mod, "PEER_READY_STATES"))
    f = nc.methods.get("route_request")
    if f is None:
        raise AnalysisError("Node.route_request not found")
    ctx.use(f)
    g = cfg_of(f)
    at = Atomizer(model, f.module, nc)
    args = [a.arg for a in f.node.args.args]
    app, msg = args[1], args[2]
    ready_constants(ctx, "C10-R0")
    identity_semantics(ctx, "C10-R0b")
    route_lists_not_aliased(ctx, "C10-R0c")
    # a request goes to `peer.connection`: that attribute must name a connection of that very peer
    peer_connection_ownership(ctx, "C10-R0d")

    # ---------------- R1 candidate list ------------------------------------------------
    ctx.rule("C10-R1", "candidate peers = route entry of (realm, application), '_default' only "
                       "as fallback; NotRoutable when empty", floor=3)
    realm_defs = [n for n in g.nodes if n.kind == "stmt" and isinstance(n.ast, ast.Assign)
                  and isinstance(n.ast.targets[0], ast.Name)
                  and ("destination_realm" in ast.unparse(n.ast.value) or A.dotted(n.ast.value) == "self.realm_name")]
    realm = A.dotted(realm_defs[0].ast.targets[0]) if realm_defs else None
    # the realm variable is the one the route table is subscripted with
    keys = {x.slice.id for x in A.walk_no_nested(f.node) if isinstance(x, ast.Subscript)
            and A.dotted(x.value) == "self._peer_routes" and isinstance(x.slice, ast.Name)}
    if len(keys) == 1:
        realm = next(iter(keys))
    cons = "route_request:realm"
    ctx.inst(cons)
    def _from_dest_realm(e, depth=3):
        """e is <x>.decode(...) / <x> where x is the request's destination_realm attribute, its
        Destination-Realm AVP, or a local all of whose definitions are."""
        while isinstance(e, ast.Call) and isinstance(e.func, ast.Attribute) \
                and e.func.attr in ("lower", "casefold", "decode"):
            e = e.func.value            # decoding / case normalisation of the name, in any order
        t = ast.unparse(e)
        if t in (f"{msg}.destination_realm", f"getattr({msg}, 'destination_realm', None)"):
            return True
        if "AVP_DESTINATION_REALM" in t and t.startswith(f"{msg}.find_avps("):
            return True
        if isinstance(e, ast.Attribute) and e.attr in ("value", "payload"):
            e = e.value
        if isinstance(e, ast.Subscript):
            e = e.value
        if isinstance(e, ast.Name) and depth > 0:
            ds = [x.value for x in A.walk_no_nested(f.node) if isinstance(x, ast.Assign)
                  and any(isinstance(t_, ast.Name) and t_.id == e.id for t_ in x.targets)]
            # a loop variable over the request's AVPs, selected by the Destination-Realm code
            for x in A.walk_no_nested(f.node):
                if isinstance(x, ast.For) and isinstance(x.target, ast.Name) and x.target.id == e.id \
                        and ast.unparse(x.iter) == f"{msg}.avps":
                    return any(isinstance(t_, ast.If) and "AVP_DESTINATION_REALM" in ast.unparse(t_.test)
                               and f"{e.id}.code" in ast.unparse(t_.test) for t_ in ast.walk(x))
            return bool(ds) and all(_from_dest_realm(d, depth - 1) for d in ds)
        return False
    nondefault = [n for n in g.nodes if n.kind == "stmt" and isinstance(n.ast, ast.Assign) and realm is not None
                  and any(A.dotted(t) == realm for t in n.ast.targets)
                  and ast.unparse(n.ast.value) not in ("self.realm_name", "self.realm_name.lower()",
                                                       "self.realm_name.casefold()")]
    if realm is None or not nondefault or not all(
            isinstance(n.ast.value, ast.Call) and _from_dest_realm(n.ast.value) for n in nondefault):
        ctx.fail(cons, f.loc(), "the destination realm of the request is not what selects the route table")
    # a request without attribute definitions (a command without python implementation, a plain
    # Message given a list of AVPs) carries its realm in the AVP list only: that list is consulted
    ctx.inst(cons + "#avp-fallback")
    src_avp = any((isinstance(x, ast.For) and ast.unparse(x.iter) == f"{msg}.avps"
                   and any(isinstance(t_, ast.If) and "AVP_DESTINATION_REALM" in ast.unparse(t_.test) for t_ in ast.walk(x)))
                  or (isinstance(x, ast.Call) and A.call_name(x) == f"{msg}.find_avps"
                      and "AVP_DESTINATION_REALM" in ast.unparse(x))
                  for x in A.walk_no_nested(f.node))
    if not src_avp:
        ctx.fail(cons + "#avp-fallback", f.loc(), f"route_request reads the destination realm from the "
                 f"`destination_realm` attribute only: a request of a command without python "
                 f"implementation (or a plain Message built from AVPs) has no such attribute, its "
                 f"Destination-Realm AVP is ignored and the request is routed - and sent - by the "
                 f"node's own realm")
    # ... also of a known command decoded with plain_msg=True: it is an instance of the command's
    # base class, which HAS an `avp_def` attribute - an empty one - so "has no avp_def" is the
    # wrong test for "has no attribute definitions"
    ctx.inst(cons + "#plain-decoded")
    guards = [ast.unparse(x.test).replace('"', "'") for x in A.walk_no_nested(f.node) if isinstance(x, ast.If)
              and "avp_def" in ast.unparse(x.test)]
    if src_avp and guards and all(f"hasattr({msg}, 'avp_def')" in t_ and "getattr" not in t_ for t_ in guards):
        ctx.fail(cons + "#plain-decoded", f.loc(), f"the AVP list is consulted only for messages that have no "
                 f"`avp_def` attribute at all ({guards[0][:70]}): a request decoded with plain_msg=True is "
                 f"an instance of its command's base class, whose avp_def is the empty tuple - its "
                 f"Destination-Realm AVP is still ignored")
    # ... and of a TYPED request whose Destination-Realm was given as an AVP (append_avp / the avps
    # setter, the other documented way of building a message): its attribute is None too
    ctx.inst(cons + "#typed-avp-list")
    if src_avp and guards and all("avp_def" in t_ for t_ in guards):
        ctx.fail(cons + "#typed-avp-list", f.loc(), f"the AVP list is consulted only for messages without "
                 f"attribute definitions ({guards[0][:70]}): a typed request built with append_avp() carries "
                 f"its Destination-Realm in the list only and is routed - and sent - by the node's own realm "
                 f"(findings/audit3/C10-2)")
    # the connection of the selected peer is read after the selection (a user callback may run in
    # between): it may be gone, and that is a routing outcome (NotRoutable), not an AttributeError
    ctx.inst("route_request:selected-connection-checked")
    cdefs = [n for n in g.nodes if n.kind == "stmt" and isinstance(n.ast, ast.Assign)
             and isinstance(n.ast.value, ast.Attribute) and n.ast.value.attr == "connection"
             and isinstance(n.ast.targets[0], ast.Name)]
    for cd in cdefs:
        cv_ = cd.ast.targets[0].id
        uses = [n for n in g.reach([d for l, d in cd.succ if l not in ("exc", "raise")])
                if n.kind in ("stmt", "test") and n.ast is not None and any(
                    isinstance(x, ast.Attribute) and isinstance(x.value, ast.Name) and x.value.id == cv_
                    for x in ast.walk(n.ast))]
        for u in uses:
            fx = must_facts(g, at, u)
            if (cv_, "is", None, False) not in fx and (cv_, "truthy", None, True) not in fx:
                ctx.fail("route_request:selected-connection-checked", g.loc(u),
                         f"`{u.text(60)}` uses `{cv_}` (= `{ast.unparse(cd.ast.value)}`, read after the "
                         f"selection) without a check for None: a connection removed since the peers were "
                         f"looked at makes send_request fail with AttributeError instead of NotRoutable")
                break
        # ... and it may be ANOTHER connection: the peer lost the one that was found ready and has
        # been dialled again meanwhile.  The state that made the peer eligible was the state of the
        # connection looked at before the selection; the one read afterwards is checked itself
        # before anything is sent over it
        ctx.inst("route_request:selected-connection-checked#ready")
        filing = [n for n in g.nodes if n.kind == "stmt" and isinstance(n.ast, ast.Assign) and any(
            isinstance(t, ast.Subscript) and A.dotted(t.value) == "self._app_waiting_answer" for t in n.ast.targets)]
        for fl in filing:
            if not g.can_reach(cd, fl):
                continue
            fx = must_facts(g, at, fl)
            if not any(f_[0] == f"{cv_}.state" and f_[1] == "in" and f_[3] is True
                       and set(f_[2] if isinstance(f_[2], (set, frozenset, tuple, list)) else ()) <= set(READY)
                       for f_ in fx):
                ctx.fail("route_request:selected-connection-checked#ready", g.loc(cd),
                         f"`{cd.text(50)}` is read after the selection and used without looking at its state: "
                         f"a peer whose ready connection was lost and that was dialled again while the "
                         f"selection callback ran has a new connection still waiting for its CEA - the "
                         f"request is written to it (after the CER) while another peer is ready",
                         expected=f"`{cv_}.state in PEER_READY_STATES` established before the request is filed",
                         observed=f"guards: {sorted(map(str, fx))[:3]}")
    # "when none exists the not-routable error is raised": a selected peer that has become
    # unusable meanwhile is not the end of the routing while other candidates are left
    ctx.inst("route_request:reselects-among-the-rest")
    for cd in cdefs:
        raises_ = [n for n in g.reach([d for l, d in cd.succ if l not in ("exc", "raise")], blocked=filing if 'filing' in dir() else [])
                   if n.kind == "stmt" and isinstance(n.ast, ast.Raise) and "NotRoutable" in ast.unparse(n.ast)
                   and not g.can_reach(n, cd) and all(not g.can_reach(fl, n) for fl in (filing if 'filing' in dir() else []))]
        for rn in raises_:
            fx = must_facts(g, at, rn)
            none_left = any((f_[1] == "truthy" and f_[3] is False and isinstance(f_[0], str) and f_[0].isidentifier())
                            or ("len(" in str(f_[0])) for f_ in fx)
            # `if not rest or <rest did not shrink>: raise` - a disjunction leaves no single fact;
            # the test that guards the raise speaks about a list of the remaining candidates
            lists_ = {t.id for x in A.walk_no_nested(f.node) if isinstance(x, ast.Assign)
                      and isinstance(x.value, (ast.ListComp, ast.List)) for t in x.targets if isinstance(t, ast.Name)}
            par_r = A.parents(f.node)
            up = par_r.get(rn.ast)
            if isinstance(up, ast.If) and rn.ast in up.body and \
                    {x.id for x in ast.walk(up.test) if isinstance(x, ast.Name)} & lists_:
                none_left = True
            in_loop = any(n.kind == "loop" and g.can_reach(cd, n) and g.can_reach(n, cd) for n in g.nodes)
            if not (none_left and in_loop):
                ctx.fail("route_request:reselects-among-the-rest", g.loc(rn),
                         f"`{rn.text(60)}` ends the routing as soon as the selected peer's connection is gone or "
                         f"not ready any more, although the other peers the selection was offered are still "
                         f"ready: NotRoutable is raised while an eligible ready peer exists",
                         expected="drop the unusable peer from the candidates and select again; raise when none is left",
                         observed=f"guards: {sorted(map(str, fx))[:3]}")
                break
    # the request's realm replaces the node's own whenever it is PRESENT (not: whenever it is
    # true - an empty Destination-Realm names no realm this node serves)
    for n in nondefault:
        v = n.ast.value
        while isinstance(v, ast.Call) and isinstance(v.func, ast.Attribute) and v.func.attr in ("lower", "casefold", "decode"):
            v = v.func.value
        subj = ast.unparse(v)
        fx = must_facts(g, at, n)
        ctx.inst(cons + "#presence")
        if (subj, "truthy", None, True) in fx and (subj, "is", None, False) not in fx:
            ctx.fail(cons + "#presence", g.loc(n), f"the request's Destination-Realm is used only when "
                     f"`{subj}` is true: an empty realm is treated as absent and the request is "
                     f"routed - and sent - by the node's own realm instead of being not routable")
    # usable list: comprehension or guarded append
    comp = None
    for n in A.walk_no_nested(f.node):
        if isinstance(n, ast.Assign) and isinstance(n.value, ast.ListComp):
            comp = n
    cons = "route_request:ready-filter"
    ctx.inst(cons)
    cand = usable = None
    if comp is None:
        ctx.fail(cons, f.loc(), "no filtered list of usable peers is built (comprehension expected)")
    else:
        usable = A.dotted(comp.targets[0])
        gen = comp.value.generators[0]
        cand = A.dotted(gen.iter)
        pv = ast.unparse(gen.target)
        conds = []
        for c in gen.ifs:
            conds += [x for x, pol in A.conjuncts(c, True)]
        atoms = [at.atom(c) for c in conds]
        has_conn = any(a.subject == f"{pv}.connection" and a.op == "truthy" and not a.flip for a in atoms) or \
            any(a.subject == f"{pv}.connection" and a.op == "is" and a.value is None and a.flip for a in atoms)
        has_ready = any(a.subject == f"{pv}.connection.state" and a.op == "in" and a.value == READY
                        and not a.flip for a in atoms)
        if ast.unparse(comp.value.elt) != pv:
            ctx.fail(cons, f.loc(comp), "the usable list does not contain the candidate peers themselves")
        if not (has_conn and has_ready):
            ctx.fail(cons, f.loc(comp), "the peers a request may be sent to are not filtered by "
                     "`peer.connection and peer.connection.state in PEER_READY_STATES`: a request is "
                     "written to a connection that has not finished its capabilities exchange, is "
                     "disconnecting, or the peer has no connection at all")
        extra = [a for a in atoms if a.subject not in (f"{pv}.connection", f"{pv}.connection.state")]
        if extra:
            ctx.fail(cons + "#extra", f.loc(comp), f"eligible ready peers are additionally filtered by {extra}")
    cons = "route_request:candidates"
    ctx.inst(cons, sample={"candidates": cand, "usable": usable})
    if cand:
        defs = [n for n in g.nodes if n.kind == "stmt" and isinstance(n.ast, ast.Assign)
                and any(A.dotted(t) == cand for t in n.ast.targets)
                and not (isinstance(n.ast.value, ast.Constant) and n.ast.value.value is None)]
        tr = FlagTracker(at, {cand})
        kinds = {}
        for d in defs:
            v = ast.unparse(d.ast.value).replace('"', "'")
            facts = must_facts(g, at, d)
            if "'_default'" in v:
                kinds["default"] = (d, facts)
                if f"self._peer_routes[{realm}]" not in v:
                    ctx.fail(cons, g.loc(d), "the default peers are not taken from the request's realm")
                if (cand, "is", None, True) not in facts:
                    ctx.fail(cons, g.loc(d), "the realm's default peers replace the peers configured "
                             "for the application (fallback must apply only when the application has "
                             "no route entry)")
            else:
                kinds["app"] = (d, facts)
                okeq = any(f_[1] == "==x" and f_[3] and app in (f_[0], f_[2]) for f_ in facts)
                if not okeq:
                    ctx.fail(cons, g.loc(d), "peers of a route entry are used without comparing the "
                             "entry's application with the sending application")
                if (realm, "in-expr", "self._peer_routes", True) not in facts:
                    ctx.fail(cons, g.loc(d), "route entries of another realm can be used")
        if "app" not in kinds:
            ctx.fail(cons, f.loc(), "the peers configured for the application are never considered")
    # NotRoutable before anything is stored
    cons = "route_request:not-routable"
    ctx.inst(cons)
    raises = [n for n in g.nodes if n.kind == "stmt" and isinstance(n.ast, ast.Raise)]
    stores = [n for n in g.nodes if n.kind == "stmt" and any(
        isinstance(t, (ast.Subscript, ast.Attribute)) for t in n.stores())]
    if len([r for r in raises if "NotRoutable" in ast.unparse(r.ast)]) < 2:
        ctx.fail(cons, f.loc(), "route_request does not raise NotRoutable both when no peer is "
                 "configured and when none is ready")
    for r in raises:
        late = [s_ for s_ in stores if g.can_reach(s_, r)]
        if not late:
            continue
        # the one tolerated form: the connection turned out to be gone after the record was
        # filed, and the record is taken back before the error is raised
        fr = must_facts(g, at, r)
        gone = any(f_[1] == "in-expr" and f_[2] == "self.connections" and f_[3] is False
                   and str(f_[0]).endswith(".ident") for f_ in fr)
        undone = True
        for s_ in late:
            tg = [t for t in s_.stores() if isinstance(t, ast.Subscript)]
            if not tg:
                continue        # header field of the caller's message: no routing state of the node
            key = (A.dotted(tg[0].value), A.dotted(tg[0].slice))
            pops = [x for x in g.nodes if x.kind == "stmt" and g.can_reach(s_, x) and g.dominated(r, [x]) and any(
                isinstance(c.func, ast.Attribute) and c.func.attr == "pop" and A.dotted(c.func.value) == key[0]
                and c.args and A.dotted(c.args[0]) == key[1] for c in x.calls())]
            if not pops:
                undone = False
        if not (gone and undone):
            ctx.fail(cons + "#after-store", g.loc(r), "NotRoutable is raised after routing state was "
                     "already modified")
    if usable:
        rets = [n for n in g.nodes if n.kind == "stmt" and isinstance(n.ast, ast.Return)]
        for r in rets:
            facts = must_facts(g, at, r)
            if (usable, "truthy", None, True) not in facts or (cand, "truthy", None, True) not in facts:
                ctx.fail(cons + "#empty", g.loc(r), "a connection can be returned although the list "
                         "of usable peers is empty")

    # ... and only then: every `raise NotRoutable` is decided by what the route table and the
    # connections hold - its controlling test looks at a value taken from `self._peer_routes` /
    # `self.connections` (directly or through locals).  A refusal decided on anything else - a
    # readiness flag, a counter, a cache - refuses requests for which an eligible peer exists
    # (Application.is_ready, e.g., follows the application's own peers, not the realm's default peers)
    cons = "route_request:refusal-decided-by-route-table"
    ctx.inst(cons)
    tainted: set[str] = set()
    srcs = ("self._peer_routes", "self.connections")
    import re as _re
    for _ in range(6):
        for x in A.walk_no_nested(f.node):
            tg, val = [], None
            if isinstance(x, (ast.Assign, ast.AnnAssign)) and getattr(x, "value", None) is not None:
                tg, val = A.store_targets(x), x.value
            elif isinstance(x, (ast.For, ast.comprehension)):
                tg, val = [x.target], x.iter
            if val is None:
                continue
            txt = ast.unparse(val)
            if any(s_ in txt for s_ in srcs) or any(_re.search(rf"\b{_re.escape(t_)}\b", txt) for t_ in tainted):
                for t in tg:
                    for nm in ast.walk(t):
                        if isinstance(nm, ast.Name):
                            tainted.add(nm.id)
    par_nr = A.parents(f.node)
    for x in A.walk_no_nested(f.node):
        if not (isinstance(x, ast.Raise) and x.exc is not None and "NotRoutable" in ast.unparse(x.exc)):
            continue
        cur, tests = x, []
        while cur in par_nr:
            p_ = par_nr[cur]
            if isinstance(p_, (ast.If, ast.While)) and cur is not p_.test:
                tests.append(p_.test)
            if isinstance(p_, ast.ExceptHandler):
                tests.append(ast.Name(id="__handler__"))
            cur = p_
        if any(isinstance(t, ast.Name) and t.id == "__handler__" for t in tests[:1]):
            continue        # conversion of a failure into NotRoutable
        inner = tests[0] if tests else None
        txt = ast.unparse(inner) if inner is not None else ""
        if inner is None or not (any(s_ in txt for s_ in srcs)
                                 or any(_re.search(rf"\b{_re.escape(t_)}\b", txt) for t_ in tainted)):
            ctx.fail(cons, f.loc(x), f"route_request refuses a request on `{txt[:80] or 'no condition'}`, a "
                     f"condition that does not look at the route table or the connections: NotRoutable is "
                     f"raised although a configured (or default) peer of the realm has a ready connection, "
                     f"and nothing is sent",
                     expected="raise NotRoutable under a test of the peers / connections found in the tables",
                     observed=txt[:120])

    # "when none exists the not-routable error is raised": nothing else escapes route_request
    from ..effects import effects_of
    E_ = effects_of(model)
    cons = "route_request:raises-only-NotRoutable"
    rs = set(E_.raises(f))
    ctx.inst(cons, sample=sorted(rs))
    # Reading `<msg>.avps` of a message WITH attribute definitions generates the AVPs from the
    # attributes, which can fail; route_request reads the list only of messages without
    # definitions (`not getattr(msg, "avp_def", None)` / `not hasattr(msg, "avp_def")`), for which
    # the generator has nothing to do.  The analysis does not see that an empty definition list
    # generates nothing, so what only DefinedMessage.avps can raise is taken out - provided every
    # read of the list sits under that guard.
    par_rr = A.parents(f.node)
    reads = [x for x in A.walk_no_nested(f.node) if isinstance(x, ast.Attribute) and x.attr == "avps"
             and A.dotted(x.value) == msg]

    def _under_no_defs_guard(x):
        while x in par_rr:
            x = par_rr[x]
            if isinstance(x, ast.If):
                t = ast.unparse(x.test).replace('"', "'")
                if f"not getattr({msg}, 'avp_def', None)" in t or f"not hasattr({msg}, 'avp_def')" in t:
                    return True
        return False
    gen_only = set()
    dm_avps = model.cls("message._base", "DefinedMessage").methods.get("avps")
    if reads and dm_avps is not None and all(_under_no_defs_guard(x) for x in reads):
        gen_only = set(E_.raises(dm_avps))
    for e_ in sorted(rs - {"NotRoutable", "ANY"} - gen_only):
        ctx.fail(cons, f.loc(), f"route_request can raise {e_} ({'; '.join(E_.why(f, e_))}): a request "
                 f"that cannot be routed fails with something else than the not-routable error")
        break

    # ---------------- R2 selection --------------------------------------------------------
    ctx.rule("C10-R2", "the selection callback gets exactly the usable peers; otherwise the only "
                       "usable peer is taken", floor=2)
    sel = [n for n in g.nodes if n.kind == "stmt" and any(
        A.call_name(c) == "self.peer_route_select_func" for c in n.calls())]
    cons = "route_request:callback-args"
    ctx.inst(cons)
    pvar = None
    if len(sel) != 1:
        ctx.fail(cons, f.loc(), f"expected one call of peer_route_select_func, found {len(sel)}")
    else:
        c = [c for c in sel[0].calls() if A.call_name(c) == "self.peer_route_select_func"][0]
        a_ = [A.dotted(x) for x in c.args]
        if a_ != ["self", app, msg, usable]:
            ctx.fail(cons, g.loc(sel[0]), f"the selection callback is called with {a_}; it must get "
                     f"(node, app, message, <usable peers>) - with the unfiltered list it can pick a "
                     f"peer that is not ready or has no connection")
        pvar = A.dotted(A.store_targets(sel[0].ast)[0]) if A.store_targets(sel[0].ast) else None
    single = [n for n in g.nodes if n.kind == "stmt" and isinstance(n.ast, ast.Assign)
              and isinstance(n.ast.value, ast.Subscript) and A.dotted(n.ast.value.value) == usable]
    cons = "route_request:single-peer"
    ctx.inst(cons)
    if len(single) != 1 or model.try_fold(single[0].ast.value.slice, f.module) not in (0, -1):
        ctx.fail(cons, f.loc(), "when one peer is usable it is not the one selected (`usable[0]`)")
    cons = "route_request:selected-peer-defs"
    ctx.inst(cons)
    if pvar is not None:
        for n in g.nodes:
            if n.kind in ("stmt", "iter", "handler", "with") and n not in sel and n not in single \
                    and n.ast is not None and not isinstance(n.ast, (ast.ListComp, ast.GeneratorExp)):
                tg = [A.dotted(t) for t in (A.store_targets(n.ast) if isinstance(
                    n.ast, (ast.Assign, ast.AugAssign, ast.AnnAssign, ast.For)) else [])]
                if pvar in tg:
                    ctx.fail(cons, g.loc(n), f"the selected peer is also taken from "
                             f"`{ast.unparse(n.ast)[:80]}`, which is neither the callback's choice "
                             f"among the usable peers nor the only usable peer: a peer that is not "
                             f"ready (or not configured for the application) can be sent to")
                    break
    conn_defs = [n for n in g.nodes if n.kind == "stmt" and isinstance(n.ast, ast.Assign)
                 and ast.unparse(n.ast.value) == f"{pvar}.connection"]
    cons = "route_request:selected-connection"
    ctx.inst(cons)
    cvar = A.dotted(conn_defs[0].ast.targets[0]) if conn_defs else None
    rets = [n for n in g.nodes if n.kind == "stmt" and isinstance(n.ast, ast.Return)]
    if cvar is None or not rets or not all(
            isinstance(r.ast.value, ast.Tuple) and [A.dotted(e) for e in r.ast.value.elts] == [cvar, msg]
            for r in rets):
        ctx.fail(cons, f.loc(), "route_request does not return (selected peer's connection, message)")

    # ---------------- R3 identifiers and pending key ----------------------------------------
    ctx.rule("C10-R3", "hop-by-hop id from the selected connection only when unset; pending key "
                       "has both ids and stores the calling application", floor=2)
    hb = [n for n in g.nodes if n.kind == "stmt" and isinstance(n.ast, ast.Assign) and any(
        A.dotted(t) == f"{msg}.header.hop_by_hop_identifier" for t in n.ast.targets)]
    cons = "route_request:hop-by-hop"
    ctx.inst(cons)
    if len(hb) != 1 or ast.unparse(hb[0].ast.value) != f"{cvar}.hop_by_hop_seq.next_sequence()":
        ctx.fail(cons, f.loc(), "the hop-by-hop identifier is not drawn from the selected "
                 "connection's generator (ids on one connection may collide)")
    else:
        # "unique among the requests outstanding on its connection" is a promise the node can only
        # keep for identifiers it draws itself: an identifier that is kept because the message
        # carries one already (a request object sent again after a timeout, a relayed request)
        # may equal one that is outstanding
        facts = must_facts(g, at, hb[0])
        ctx.inst(cons + "#caller-supplied-kept")
        if (f"{msg}.header.hop_by_hop_identifier", "truthy", None, False) in facts:
            ctx.fail(cons + "#caller-supplied-kept", g.loc(hb[0]), "route_request draws a hop-by-hop "
                     "identifier only when the message has none: a request object that is sent again "
                     "(after a timeout, with changed content) leaves with the identifier of its first "
                     "transmission, which may still be outstanding on the connection - the second "
                     "sender is handed the answer to the first request and the answer to the second is "
                     "dropped")
    pend = [n for n in g.nodes if n.kind == "stmt" and isinstance(n.ast, ast.Assign) and any(
        isinstance(t, ast.Subscript) and A.dotted(t.value) == "self._app_waiting_answer" for t in n.ast.targets)]
    cons = "route_request:pending-key"
    ctx.inst(cons)
    key_fields = None
    if len(pend) != 1 or A.dotted(pend[0].ast.value) != app:
        ctx.fail(cons, f.loc(), "the request is not recorded as pending for the calling application")
    else:
        kv = ast.unparse(pend[0].ast.targets[0].slice)
        kd = [n for n in g.nodes if n.kind == "stmt" and isinstance(n.ast, ast.Assign)
              and any(A.dotted(t) == kv for t in n.ast.targets)]
        key_fields = _fields(kd[0].ast.value) if kd else None
        if key_fields != ["ident", ":", "hop_by_hop_identifier", ":", "end_to_end_identifier"]:
            ctx.fail(cons, g.loc(pend[0]), f"the pending key is not '<connection ident>:hop-by-hop:"
                     f"end-to-end' ({key_fields}): hop-by-hop identifiers are unique per connection "
                     f"only, and a record that does not name its connection cannot be dropped when "
                     f"the connection goes away (one record for ever per unanswered request)")
        if hb and not g.can_reach(hb[0], pend[0]):
            ctx.fail(cons + "#order", g.loc(pend[0]), "the pending key is built before the hop-by-hop "
                     "identifier has been assigned")
        if not all(g.dominated(r, pend) for r in rets):
            ctx.fail(cons + "#always", g.loc(pend[0]), "a request can be routed without being recorded as pending")

    from . import c16
    ctx.include(c16.run, {"C16-R1", "C16-R2"}, "C10-R3b",
                "hop-by-hop identifiers handed out by a connection's generator are non-zero and "
                "unique (generator wrap and critical section)", floor=4)

    # ---------------- R4 answer delivery -----------------------------------------------------
    ctx.rule("C10-R4", "an answer is delivered to the application recorded for its ids and to no "
                       "other; receive_answer wakes the waiter of that id or calls the same "
                       "application's handle_answer", floor=2)
    fa = nc.methods.get("_receive_app_answer")
    if fa is None:
        raise AnalysisError("Node._receive_app_answer not found")
    ctx.use(fa)
    ga = cfg_of(fa)
    ata = Atomizer(model, fa.module, nc)
    amsg = [a.arg for a in fa.node.args.args][2]
    deliv = [n for n in ga.nodes if n.kind == "stmt" and any(
        isinstance(c.func, ast.Attribute) and c.func.attr in ("receive_answer", "handle_answer") for c in n.calls())]
    cons = "_receive_app_answer:delivery"
    ctx.inst(cons)
    if len(deliv) != 1:
        ctx.fail(cons, fa.loc(), f"expected exactly one delivery call, found {len(deliv)}")
    else:
        c = [c for c in deliv[0].calls() if isinstance(c.func, ast.Attribute)
             and c.func.attr in ("receive_answer", "handle_answer")][0]
        av = A.dotted(c.func.value)
        if c.func.attr != "receive_answer" or [A.dotted(x) for x in c.args] != [amsg]:
            ctx.fail(cons, ga.loc(deliv[0]), "the answer is not handed to receive_answer of the application")
        adef = [n for n in ga.nodes if n.kind == "stmt" and isinstance(n.ast, ast.Assign)
                and any(A.dotted(t) == av for t in n.ast.targets)]
        okd = False
        kvar = None
        for d in adef:
            v = d.ast.value
            if isinstance(v, ast.Subscript) and A.dotted(v.value) == "self._app_waiting_answer":
                okd, kvar = True, ast.unparse(v.slice)
            if isinstance(v, ast.Call) and isinstance(v.func, ast.Attribute) \
                    and A.dotted(v.func.value) == "self._app_waiting_answer" and v.func.attr in ("pop", "get"):
                okd, kvar = True, ast.unparse(v.args[0])
        if not okd or len(adef) != 1:
            ctx.fail(cons, ga.loc(deliv[0]), f"the receiving application `{av}` is not the one "
                     f"recorded in _app_waiting_answer for the answer's identifiers: an answer can "
                     f"reach another application")
        else:
            kd = [n for n in ga.nodes if n.kind == "stmt" and isinstance(n.ast, ast.Assign)
                  and any(A.dotted(t) == kvar for t in n.ast.targets)]
            kf = _fields(kd[0].ast.value) if kd else None
            if kf != key_fields:
                ctx.fail(cons + "#key", ga.loc(deliv[0]), f"the key used on delivery ({kf}) differs from "
                         f"the key recorded when the request was routed ({key_fields})")
            facts = must_facts(ga, ata, deliv[0])
            # known identifiers: the key is in the table, or what a tolerant pop()/get() of the table
            # returned for it is not None
            got = any(isinstance(d.ast.value, ast.Call) and d.ast.value.func.attr in ("pop", "get") for d in adef
                      if isinstance(d.ast.value, ast.Call) and isinstance(d.ast.value.func, ast.Attribute))
            found = got and any(x[0] == av and ((x[1] == "is" and x[2] is None and x[3] is False)
                                                or (x[1] == "truthy" and x[3] is True)) for x in facts)
            if (kvar, "in-expr", "self._app_waiting_answer", True) not in facts and not found:
                ctx.fail(cons + "#unknown", ga.loc(deliv[0]), "an answer with unknown identifiers is delivered")
    cons = "_app_waiting_answer:released-only-on-delivery"
    ctx.inst(cons)
    for f_ in model.all_funcs():
        if ".node" not in f_.module.name or f_ is fa or f_.name == "__init__":
            continue
        for n in A.walk_no_nested(f_.node):
            hit = False
            if isinstance(n, ast.Delete):
                hit = any("_app_waiting_answer" in ast.unparse(t) for t in n.targets)
            elif isinstance(n, ast.Call) and isinstance(n.func, ast.Attribute) \
                    and n.func.attr in ("pop", "popitem", "clear") \
                    and "_app_waiting_answer" in ast.unparse(n.func.value):
                hit = True
            if hit and f_.name == "route_request":
                # taking back the record route_request has just filed itself, because the
                # selected connection has been removed meanwhile (the request is not sent)
                gq = cfg_of(f_)
                atq = Atomizer(model, f_.module, f_.cls)
                qn = [x for x in gq.nodes if x.kind == "stmt" and (x.ast is n or n in list(x.walk()))]
                fq = must_facts(gq, atq, qn[0]) if qn else set()
                if any(fx[1] == "in-expr" and fx[2] == "self.connections" and fx[3] is False
                       and str(fx[0]).endswith(".ident") for fx in fq) \
                        and any(isinstance(x_, ast.Raise) for b_ in [qn[0]] for x_ in
                                [m_.ast for m_ in gq.reach([qn[0]], include_starts=False) if m_.kind == "stmt"][:3]):
                    continue
            if hit and f_.name == "remove_peer_connection":
                # the removed connection's own records: their answers can no longer arrive
                gq = cfg_of(f_)
                atq = Atomizer(model, f_.module, f_.cls)
                qn = [x for x in gq.nodes if x.kind == "stmt" and (x.ast is n or n in list(x.walk()))]
                from .common_node import selects_own_entries
                own = bool(qn) and any(selects_own_entries(fx) for fx in must_facts(gq, atq, qn[0]))
                if own:
                    continue
            if hit:
                ctx.fail(cons, f_.loc(n), f"{f_.qualname} removes the record that maps an outstanding "
                         f"request to its application (`{ast.unparse(n)[:60]}`): an answer arriving "
                         f"after the sender stopped waiting is dropped instead of being passed to the "
                         f"sending application's handle_answer")
    app_cls = model.cls("node.application", "Application")
    ra = app_cls.methods.get("receive_answer")
    cons = "Application.receive_answer"
    ctx.inst(cons)
    if ra is None:
        ctx.error("Application.receive_answer not found")
    else:
        ctx.use(ra)
        gr = cfg_of(ra)
        atr = Atomizer(model, ra.module, app_cls)
        rmsg = [a.arg for a in ra.node.args.args][1]
        key, rkey_res, rfields, rtexts = _waiter_key(ra.node, rmsg)
        if key is None:
            ctx.fail(cons + "#key", ra.loc(), f"receive_answer indexes the waiter table with several "
                     f"different keys: {rtexts}")
            key = f"{rmsg}.header.hop_by_hop_identifier"
        elif rfields != {"hop_by_hop_identifier", "end_to_end_identifier"}:
            ctx.fail(cons + "#key", ra.loc(), f"waiters are looked up under `{rkey_res}`: hop-by-hop "
                     f"identifiers are unique per connection only, so two requests outstanding on "
                     f"two connections can carry the same one - the answer to one wakes the sender of "
                     f"the other (both identifiers are needed)")
        sets = [n for n in gr.nodes if n.kind == "stmt" and any(A.call_name(c).endswith(".event.set") for c in n.calls())]
        ans = [n for n in gr.nodes if n.kind == "stmt" and isinstance(n.ast, ast.Assign)
               and any(A.dotted(t).endswith(".answer") for t in n.ast.targets)]
        ha = [n for n in gr.nodes if n.kind == "stmt" and any(A.call_name(c) == "self.handle_answer" for c in n.calls())]
        # the waiter is found by membership + index, or by one tolerant get() whose result is
        # tested for None (the sender removes its entry from its own thread at any moment)
        getters = {A.dotted(n.ast.targets[0]) for n in gr.nodes if n.kind == "stmt" and isinstance(n.ast, ast.Assign)
                   and isinstance(n.ast.value, ast.Call) and isinstance(n.ast.value.func, ast.Attribute)
                   and n.ast.value.func.attr == "get" and A.dotted(n.ast.value.func.value) == "self._answer_waiting"
                   and len(n.ast.value.args) == 1 and ast.unparse(n.ast.value.args[0]) == key}

        def _found(fs, truth):
            if (key, "in-expr", "self._answer_waiting", truth) in fs:
                return True
            return any(x[0] in getters and ((x[1] == "is" and x[2] is None and x[3] is (not truth))
                                            or (x[1] == "truthy" and x[3] is truth)) for x in fs)
        ok = (len(sets) == 1 and len(ans) == 1 and len(ha) == 1
              and _found(must_facts(gr, atr, sets[0]), True)
              and _found(must_facts(gr, atr, ha[0]), False)
              and A.dotted(ans[0].ast.value) == rmsg and gr.dominated(sets[0], ans))
        if not ok:
            ctx.fail(cons, ra.loc(), "receive_answer must store the answer and wake exactly the "
                     "waiter registered under the answer's hop-by-hop id, and otherwise call this "
                     "application's own handle_answer")
        else:
            wv = A.dotted(ans[0].ast.targets[0]).rsplit(".", 1)[0]
            wd = [n for n in gr.nodes if n.kind == "stmt" and isinstance(n.ast, ast.Assign)
                  and any(A.dotted(t) == wv for t in n.ast.targets)]
            if not wd or ast.unparse(wd[0].ast.value).replace(" ", "") not in (
                    f"self._answer_waiting[{key}]", f"self._answer_waiting.get({key})"):
                ctx.fail(cons + "#waiter", ra.loc(), "the waiter woken is not the one registered under the answer's id")
            # once the waiter has been found, nothing can fail before it is woken: an exception
            # there is swallowed by the node's receive handler, the sender times out although its
            # answer has arrived, and the answer reaches nobody
            from ..effects import effects_of
            Er = effects_of(model)
            gre = cfg_of(ra, effects=Er, inline=False)
            sets_e = [n for n in gre.nodes if n.kind == "stmt" and any(
                A.call_name(c).endswith(".event.set") for c in n.calls())]
            wd_e = [n for n in gre.nodes if n.kind == "stmt" and isinstance(n.ast, ast.Assign)
                    and any(A.dotted(t) == wv for t in n.ast.targets)]
            ctx.inst(cons + "#nothing-raises-before-wake")
            if sets_e and wd_e:
                between = gre.reach([d for l, d in wd_e[0].succ if l != "exc"], blocked=sets_e,
                                    skip_labels=("exc",))
                for n in sorted((x for x in between if x.raises and _found(must_facts(gre, atr, x), True)),
                                key=lambda x: x.line):
                    rs = sorted(n.raises)
                    ctx.fail(cons + "#nothing-raises-before-wake", gre.loc(n),
                             f"`{n.text(60)}` can raise {rs} between finding the waiter and waking it: the "
                             f"exception ends receive_answer (the node's handler swallows it), the sending "
                             f"thread's wait times out although the answer arrived in time, and "
                             f"handle_answer is not called either ({'; '.join(Er.why_at(ra, rs[0], n.line))[:200]})")
                    break

    # ---------------- R5 send_request ordering / pairing ----------------------------------------
    ctx.rule("C10-R5", "send_request: route, register the waiter before sending, wait with "
                       "time-out, return the waiter's answer, remove the waiter in finally", floor=3)
    sr = app_cls.methods.get("send_request")
    if sr is None:
        raise AnalysisError("Application.send_request not found")
    ctx.use(sr)
    gs = cfg_of(sr)
    smsg = [a.arg for a in sr.node.args.args][1]
    key, skey_res, sfields, stexts = _waiter_key(sr.node, smsg)
    if key is None:
        key = f"{smsg}.header.hop_by_hop_identifier"
        skey_res = None
    reg = [n for n in gs.nodes if n.kind == "stmt" and isinstance(n.ast, ast.Assign) and any(
        isinstance(t, ast.Subscript) and A.dotted(t.value) == "self._answer_waiting" for t in n.ast.targets)]
    sends = [n for n in gs.nodes if n.has_call("send_message")]
    routes = [n for n in gs.nodes if n.has_call("route_request")]
    cons = "send_request:register-before-send"
    ctx.inst(cons)
    if len(reg) != 1 or len(sends) != 1 or len(routes) != 1:
        ctx.fail(cons, sr.loc(), "send_request must route once, register one waiter and send once")
    else:
        if not gs.dominated(sends[0], reg):
            ctx.fail(cons, gs.loc(sends[0]), "the request is handed to the connection before the "
                     "waiter is registered: an answer that arrives quickly finds nobody waiting, is "
                     "passed to handle_answer, and the sender times out")
        if skey_res is None or sfields != {"hop_by_hop_identifier", "end_to_end_identifier"}:
            ctx.fail(cons + "#key", gs.loc(reg[0]), f"the waiter is registered under `{skey_res or stexts}`, "
                     f"not under the request's hop-by-hop and end-to-end identifiers (hop-by-hop ids "
                     f"are unique per connection only)")
        elif ra is not None and rkey_res != skey_res:
            ctx.fail(cons + "#key", gs.loc(reg[0]), f"the waiter is registered under `{skey_res}` but "
                     f"receive_answer looks it up under `{rkey_res}`")
        if not gs.dominated(reg[0], routes):
            ctx.fail(cons + "#route", gs.loc(reg[0]), "the waiter is registered before the hop-by-hop "
                     "id has been assigned by route_request")
        rc = [c for c in routes[0].calls() if A.call_name(c).endswith("route_request")][0]
        if [A.dotted(x) for x in rc.args] != ["self", smsg]:
            ctx.fail(cons + "#app", gs.loc(routes[0]), "route_request is not called with this application")
        sc = [c for c in sends[0].calls() if A.call_name(c).endswith("send_message")][0]
        tg = routes[0].ast.targets[0] if isinstance(routes[0].ast, ast.Assign) else None
        first = A.dotted(tg.elts[0]) if isinstance(tg, ast.Tuple) else None
        if [A.dotted(x) for x in sc.args] != [first, smsg]:
            ctx.fail(cons + "#conn", gs.loc(sends[0]), "the request is not sent on the connection "
                     "route_request selected")
    cons = "send_request:waiter-removed"
    ctx.inst(cons)
    fin = [t for t in ast.walk(sr.node) if isinstance(t, ast.Try) and t.finalbody]
    okf = False
    for t in fin:
        for st in t.finalbody:
            s = ast.unparse(st).replace(" ", "")
            if s in (f"delself._answer_waiting[{key}]", f"self._answer_waiting.pop({key},None)",
                     f"self._answer_waiting.pop({key})"):
                okf = True
                # the wait must be inside this try
                if not any(isinstance(x, ast.Call) and A.call_name(x).endswith(".event.wait")
                           for b in t.body for x in ast.walk(b)):
                    okf = False
    if not okf:
        ctx.fail(cons, sr.loc(), "the waiter is not removed in a finally clause around the wait: "
                 "every timed-out request leaves an entry behind and a late answer is swallowed by "
                 "the dead waiter instead of reaching handle_answer")
    from .common_node import ready_check_atomic_with_send, waiter_table_synchronised
    ready_check_atomic_with_send(ctx, "C10-R6", "send_request", "route_request")
    waiter_table_synchronised(ctx, "C10-R7")
    # "whose connection is ready": a connection that has left the ready states (DPR answered,
    # closing) is never turned back into a ready - and therefore routable - one
    from .common_node import ready_state_stores
    ready_state_stores(ctx, "C10-R8")
    from .common_node import ready_substate_transitions_atomic
    ready_substate_transitions_atomic(ctx, "C10-R8b")
    from .common_node import realm_key_case
    realm_key_case(ctx, "C10-R10")
    # writer, readers and purge of the flat transaction tables agree on the key
    from .common_node import transaction_table_keys
    transaction_table_keys(ctx, "C10-R9", tables=("_app_waiting_answer",))
    ctx.cur("C10-R5")
    cons = "send_request:result"
    ctx.inst(cons)
    waits = [n for n in gs.nodes if any(A.call_name(c).endswith(".event.wait") for c in n.calls())]
    rets = [n for n in gs.nodes if n.kind == "stmt" and isinstance(n.ast, ast.Return) and n.ast.value is not None]
    # (a `return None` for a message that is not a request concerns no sender waiting for an answer)
    at_r = Atomizer(model, sr.module, sr.cls)
    rets = [n for n in rets if not (isinstance(n.ast.value, ast.Constant) and n.ast.value.value is None and any(
        str(f_[0]).endswith(".header.is_request") and f_[1] == "truthy" and f_[3] is False
        for f_ in must_facts(gs, at_r, n)))]
    wvar = A.dotted(reg[0].ast.value) if reg else None
    if not waits or not rets or not all(A.dotted(r.ast.value) == f"{wvar}.answer" for r in rets):
        ctx.fail(cons, sr.loc(), "send_request does not return the answer stored in its own waiter")
    else:
        wc = [c for n in waits for c in n.calls() if A.call_name(c).endswith(".event.wait")][0]
        if not wc.args and not wc.keywords:
            ctx.fail(cons + "#timeout", gs.loc(waits[0]), "the wait has no time-out")
        if "TimeoutError" not in ast.unparse(sr.node):
            ctx.fail(cons + "#timeout-raise", sr.loc(), "a timed-out wait does not raise")
    e2e = [n for n in gs.nodes if n.kind == "stmt" and isinstance(n.ast, ast.Assign) and any(
        A.dotted(t) == f"{smsg}.header.end_to_end_identifier" for t in n.ast.targets)]
    cons = "send_request:end-to-end"
    ctx.inst(cons)
    if len(e2e) != 1 or ast.unparse(e2e[0].ast.value) != "self.node.end_to_end_seq.next_sequence()" \
            or not (routes and gs.dominated(routes[0], e2e) or True):
        ctx.fail(cons, sr.loc(), "the end-to-end identifier is not drawn from the node's generator")


def _fields(js):
    if isinstance(js, ast.Tuple):
        # a tuple key: same fields, written in the notation of the string form
        out = []
        for i, v in enumerate(js.elts):
            if i:
                out.append(":")
            out.append(ast.unparse(v).split(".")[-1])
        return out
    if not isinstance(js, ast.JoinedStr):
        return None
    out = []
    for v in js.values:
        if isinstance(v, ast.FormattedValue):
            out.append(ast.unparse(v.value).split(".")[-1])
        elif isinstance(v, ast.Constant):
            out.append(v.value)
    return out
