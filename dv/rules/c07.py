"""C07 - each transmitted answer answers exactly one received request, never an answer."""
from __future__ import annotations

import ast

from ..report import Ctx
from ..srcmodel import AnalysisError
from ..cfg import cfg_of
from ..atoms import Atomizer, must_facts
from ..effects import effects_of, fault_effects_of
from ..lockset import call_sites
from .. import astutil as A
from .recvmsg import RecvModel, answer_sites
from .common_node import route_answer_discipline

TECHNIQUE = "CFG dominance/must-facts (is_request guards, interprocedural through the dispatch arms), " \
            "def-use of the sent object, at-most-once path rule, call-graph reachability from answer arms"
EXPLANATION = (
    "Every place in node.py that builds an answer (_generate_answer) is shown to run only for "
    "requests: a dominating is_request test, or the enclosing function is called only from "
    "dispatch arms on which is_request holds (facts computed on the CFG of _receive_message, "
    "match arms decomposed component-wise). The object passed to send_message is the value "
    "returned by _generate_answer for the same connection and message (def-use), no path sends "
    "two node-originated answers, nothing can raise into the error handler after an answer was "
    "sent, nothing reachable from the answer arms builds or sends an answer, identifiers of "
    "generated answers are not overwritten, and route_answer removes the pending record before "
    "returning so a second submission fails.")
ASSUMPTIONS = [
    "not decided: correlation over histories beyond the single-send-per-path rule and the table discipline",
    "answers submitted by applications are built with generate_answer/to_answer (C20)",
    "a request handler that raises after having sent its own answer is outside this property's quantifier",
]


def _callers_request_only(ctx, model, f, depth=2) -> tuple[bool, str]:
    """All call sites of f pass a message for which is_request is a must-fact."""
    sites = [c for c in call_sites(model, f.name) if c.func.cls is not None and c.func.cls.name == "Node"]
    if not sites:
        return False, f"{f.qualname} has no call site"
    params = [a.arg for a in f.node.args.args]
    for c in sites:
        g = cfg_of(c.func, effects=effects_of(model), inline=False)
        at = Atomizer(model, c.func.module, c.func.cls)
        n = [x for x in g.nodes if c.node in x.calls()]
        if not n:
            return False, f"call at {c.where} not in CFG"
        if len(c.node.args) < 2:
            return False, f"call at {c.where} passes no message"
        m = A.dotted(c.node.args[1])
        facts = must_facts(g, at, n[0])
        if (f"{m}.header.is_request", "truthy", None, True) in facts:
            continue
        if depth > 0:
            ok, why = _callers_request_only(ctx, model, c.func, depth - 1)
            cparams = [a.arg for a in c.func.node.args.args]
            if ok and len(cparams) > 2 and m == cparams[2]:
                continue
        return False, (f"{f.qualname} is called at {c.where} ({c.func.qualname}) where "
                       f"`{m}.header.is_request` is not established")
    return True, f"all {len(sites)} call site(s) are request-only"


def run(ctx: Ctx):
    model = ctx.model
    from .common_node import names_resolve
    names_resolve(ctx, "C07-RN")
    # ---------------- R14 the error handler claims the request before it answers it ----------------
    # A plain Application may hand the request to a worker thread and then raise: the reader's
    # error handler tests "not answered yet" and sends 5012, the worker submits its answer through
    # route_answer at the same moment.  Only one of them may win: the handler has to CLAIM the
    # request (remove a record both sides need, under the lock or with an operation that fails for
    # the second) - a membership test followed by a send does not
    ctx.rule("C07-R14", "the dispatcher's error handler answers a request only after claiming it "
                        "(not: test, then send)", floor=1)
    _R14 = RecvModel(ctx)
    cons14 = "_receive_message:handler-5012#check-then-send"
    ctx.inst(cons14, rule="C07-R14")
    for _h in [x for x in ast.walk(_R14.f.node) if isinstance(x, ast.ExceptHandler)]:
        _src = ast.unparse(_h)
        if "send_message" not in _src:
            continue
        _tests = [x for x in ast.walk(_h) if isinstance(x, ast.Compare) and any(isinstance(o, (ast.In, ast.NotIn)) for o in x.ops)
                  and "_origin_waiting_answer" in ast.unparse(x)]
        _claims = [x for x in ast.walk(_h) if (isinstance(x, ast.Call) and isinstance(x.func, ast.Attribute)
                                               and x.func.attr in ("pop", "acquire") and "waiting" in ast.unparse(x.func.value))
                   or isinstance(x, ast.Delete) or (isinstance(x, ast.With) and "lock" in ast.unparse(x.items[0].context_expr).lower())]
        if _tests and not _claims:
            ctx.fail(cons14, _R14.f.loc(_tests[0]), "the error handler tests `message_id not in self._origin_waiting_answer` "
                     "and then sends 5012; an application worker thread that answers the same request at that "
                     "moment passes route_answer (its record is still there) - two answers for one request "
                     "(findings/audit3/C07-1)", rule="C07-R14")

    # ---------------- R13 what is not a request is not routed like one ---------------------------
    # Application.send_request routes its message to the least used ready peer of the realm; an
    # answer handed to it (the docstring says such a message is sent without waiting) must go
    # back where its request came from: route_request is reached for requests only
    ctx.rule("C07-R13", "Application.send_request reaches route_request only for a message whose "
                        "request bit is set", floor=1)
    _app = model.cls("node.application", "Application")
    _sr = _app.methods.get("send_request")
    cons13 = "send_request:routes-requests-only"
    ctx.inst(cons13, rule="C07-R13")
    if _sr is None:
        raise AnalysisError("Application.send_request not found")
    ctx.use(_sr)
    _g13 = cfg_of(_sr)
    _at13 = Atomizer(model, _sr.module, _app)
    for _n in _g13.nodes:
        if _n.has_call("route_request"):
            _fx = must_facts(_g13, _at13, _n)
            if not any(str(f_[0]).endswith(".header.is_request") and f_[1] == "truthy" and f_[3] is True for f_ in _fx):
                ctx.fail(cons13, _g13.loc(_n), "send_request passes its message to route_request whatever its "
                         "request bit: an answer is written to the least used peer of the realm - a "
                         "connection that never sent the request - and the caller waits for an answer "
                         "to an answer until the timeout", rule="C07-R13",
                         expected="`if not message.header.is_request: send_answer(...); return None` first",
                         observed=f"guards: {sorted(map(str, _fx))[:3]}")
    from .common_codec import no_shared_default_objects
    no_shared_default_objects(ctx, "C07-R12", [f_ for f_ in model.all_funcs() if ".node" in f_.module.name], "the node package")
    from . import c05 as _c05
    ctx.include(_c05.run, {"C05-R6"}, "C07-R10",
                "the reader hands every parsed request to the node once: the per-frame variables "
                "are reset on every turn of the framing loop (a request dispatched twice is "
                "answered twice)", floor=1,
                constructs=lambda c: c.startswith("work_read_queue:message-reset")
                or c.startswith("work_read_queue:parsed-frame"))
    from . import c19 as _c19
    ctx.include(_c19.run, {"C19-G1"}, "C07-R11",
                "the record of an unanswered request is removed by every answer that is sent "
                "(the handler-failure branch of _receive_message answers only while the record "
                "exists)", floor=1,
                constructs=lambda c: "_origin_waiting_answer" in c)
    from .common_node import single_transmit_gate
    single_transmit_gate(ctx, "C07-R9")
    R = RecvModel(ctx)
    nc = R.nc
    E = effects_of(model)

    # ---------------- R1 answers only for requests ---------------------------------
    ctx.rule("C07-R1", "every _generate_answer(conn, X) runs only when X is a request", floor=8)
    sites = answer_sites(model)
    for f, call in sites:
        g = cfg_of(f, effects=E)
        at = Atomizer(model, f.module, nc)
        n = [x for x in g.nodes if call in x.calls()][0]
        x = A.dotted(call.args[1]) if len(call.args) > 1 else "?"
        tag = _site_tag(g, n, f)
        cons = f"{f.qualname}:answer@{tag}"
        facts = must_facts(g, at, n)
        ctx.use(f)
        local = (f"{x}.header.is_request", "truthy", None, True) in facts
        why = "dominating is_request test"
        ok = local
        if not ok:
            params = [a.arg for a in f.node.args.args]
            if len(params) > 2 and x == params[2]:
                ok, why = _callers_request_only(ctx, model, f)
            else:
                why = f"`{x}` is not the handled message"
        ctx.inst(cons, sample={"where": g.loc(n), "message": x, "because": why})
        if not ok:
            ctx.fail(cons, g.loc(n), f"an answer is generated from `{x}` without establishing that "
                     f"it is a request ({why}): the node can transmit an answer in reaction to a "
                     f"received answer")

    # ---------------- R2 def-use of the sent answer ------------------------------------
    ctx.rule("C07-R2", "what is sent is the generated answer, on the connection the request came "
                       "from", floor=8)
    req_ctors = {"CapabilitiesExchangeRequest", "DeviceWatchdogRequest", "DisconnectPeerRequest"}
    for f in nc.all_funcs:
        if f.name == "send_message":
            continue
        g = cfg_of(f, effects=E)
        for n in g.nodes:
            for c in n.calls():
                if A.call_name(c) != "self.send_message" or len(c.args) < 2:
                    continue
                cv, mv = A.dotted(c.args[0]), A.dotted(c.args[1])
                defs = [d for d in g.nodes if d.kind == "stmt" and isinstance(d.ast, (ast.Assign, ast.AnnAssign))
                        and any(A.dotted(t) == mv for t in A.store_targets(d.ast))]
                cons = f"{f.qualname}:send({mv})@{_site_tag(g, n, f)}"
                ctx.inst(cons)
                params = [a.arg for a in f.node.args.args]
                if mv in params:
                    continue     # pass-through helper (Application.send_* -> send_message)
                kinds = set()
                for d in defs:
                    v = d.ast.value
                    if isinstance(v, ast.Call) and A.call_name(v) == "self._generate_answer":
                        kinds.add("answer")
                        if A.dotted(v.args[0]) != cv:
                            ctx.fail(cons, g.loc(n), f"the answer generated for connection "
                                     f"`{A.dotted(v.args[0])}` is sent on `{cv}`")
                        if not g.dominated(n, [d]) and len(defs) == 1:
                            ctx.fail(cons, g.loc(n), "send is reachable without the answer being built")
                    elif isinstance(v, ast.Call) and A.call_name(v) in req_ctors:
                        kinds.add("request")
                    else:
                        kinds.add("other")
                if "other" in kinds or not kinds:
                    ctx.fail(cons, g.loc(n), f"`{mv}` sent by {f.qualname} is neither an answer "
                             f"built by _generate_answer nor a freshly built base-protocol request")
                if "answer" in kinds and cv != (params[1] if len(params) > 1 else None):
                    ctx.fail(cons + "#conn", g.loc(n), f"an answer is sent on `{cv}`, not on the "
                             f"connection the request was received on")

    # ---------------- R3 at most one node-originated answer per message -----------------
    ctx.rule("C07-R3", "no handling path sends two node-originated answers; nothing raises into "
                       "the error handler after an answer has been sent", floor=5)
    F = fault_effects_of(model)
    handlers = ["_receive_message", "receive_cer", "receive_dwr", "receive_dpr",
                "_receive_app_request"]
    # the error handler of _receive_message answers 5012 only while the request is unanswered:
    # a request handler of an application is arbitrary code that may send its answer and fail
    # afterwards, and so may bookkeeping that runs after an answer has been queued
    rmf = nc.methods.get("_receive_message")
    handler_guarded = False
    if rmf is not None:
        grm = cfg_of(rmf)
        atrm = Atomizer(model, rmf.module, nc)
        hs = [n for n in grm.nodes if any(A.call_name(c) == "self.send_message" for c in n.calls())
              and any(isinstance(x, ast.ExceptHandler) for x in n.lexical)] \
            if hasattr(grm.nodes[0], "lexical") else []
        if not hs:
            # send nodes lexically inside an except clause of the function
            inside = {id(x) for h in ast.walk(rmf.node) if isinstance(h, ast.ExceptHandler) for x in ast.walk(h)}
            hs = [n for n in grm.nodes if n.ast is not None and id(n.ast) in inside
                  and any(A.call_name(c) == "self.send_message" for c in n.calls())]
        cons_h = "_receive_message:handler-answers-unanswered-only"
        ctx.inst(cons_h)
        handler_guarded = bool(hs) and all(any(
            f_[1] == "in-expr" and f_[2] == "self._origin_waiting_answer" and f_[3] is True
            for f_ in must_facts(grm, atrm, h)) for h in hs)
        if hs and not handler_guarded:
            ctx.fail(cons_h, grm.loc(hs[0]), "the error handler of _receive_message sends its 5012 answer "
                     "without checking that the request is still unanswered (its record in "
                     "_origin_waiting_answer is removed when an answer goes out): a request handler "
                     "that sends its answer and then raises, or bookkeeping that fails after an answer "
                     "has been queued, makes the node transmit a second answer for the request")
    for nm in handlers:
        f = nc.methods.get(nm)
        if f is None:
            ctx.error(f"Node.{nm} not found")
            continue
        g = cfg_of(f, effects=F)
        sends = [n for n in g.nodes if any(A.call_name(c) == "self.send_message" for c in n.calls())]
        cons = f"Node.{nm}:at-most-one-answer"
        ctx.inst(cons, sample=[g.loc(s) for s in sends])
        for s in sends:
            after = g.reach([d for l, d in s.succ if l != "exc"])
            second = [t for t in sends if t in after]
            if second:
                ctx.fail(cons, g.loc(second[0]), f"in {f.qualname} a second send_message is reachable "
                         f"after the answer sent at {g.loc(s)}: two answers for one request",
                         steps=[f"{g.loc(s)}: {s.text(80)}", f"{g.loc(second[0])}: {second[0].text(80)}"])
            if nm != "_receive_message" and not handler_guarded:
                # (only where the handler is not guarded: with the guard an exception after the
                # send cannot produce a second answer)
                raising = [t for t in after if t.raises and t.kind != "handler"
                           and not all(d.kind == "handler" and any(isinstance(x, ast.Try) and x in t.lexical
                                                                   for x in [d.ast] if False)
                                       for l, d in t.succ if l == "exc")]
                escaping = [t for t in raising if any(d is g.raise_exit for l, d in t.succ
                                                      if l in ("exc", "raise"))]
                if escaping:
                    t = escaping[0]
                    ctx.fail(cons + "#raise-after-send", g.loc(t), f"`{t.text(70)}` can raise "
                             f"({sorted(t.raises)}) after {f.qualname} has already sent its answer: "
                             f"the error handler of _receive_message sends a second (5012) answer")
                else:
                    # value faults: indexing into data taken from the received message (absent /
                    # undecodable AVPs give None or short lists) after the answer went out
                    derived = _message_derived(f)
                    for t in after:
                        if t.kind not in ("stmt", "test", "iter") or t.ast is None:
                            continue
                        if any(isinstance(x, ast.Try) and any(
                                h.type is None or ast.unparse(h.type) in ("Exception", "BaseException")
                                for h in x.handlers) for x in t.lexical):
                            continue
                        exprs = [t.ast.iter] if t.kind == "iter" else \
                                [t.ast] if t.kind == "test" else [t.ast]
                        bad = None
                        for e_ in exprs:
                            comp_vars = set()
                            for x in ast.walk(e_):
                                if isinstance(x, ast.comprehension) and _mentions(x.iter, derived):
                                    comp_vars |= {y.id for y in ast.walk(x.target) if isinstance(y, ast.Name)}
                            for x in ast.walk(e_):
                                if isinstance(x, ast.Subscript) and isinstance(x.ctx, ast.Load) \
                                        and not isinstance(x.slice, ast.Slice) \
                                        and _mentions(x.value, derived | comp_vars):
                                    bad = x
                        if bad is not None and t.kind == "stmt" and isinstance(
                                t.ast, (ast.Assign, ast.AugAssign, ast.AnnAssign, ast.Expr, ast.Return)):
                            ctx.fail(cons + "#raise-after-send", g.loc(t), f"`{ast.unparse(bad)}` indexes "
                                     f"data taken from the received message after {f.qualname} has "
                                     f"already sent its answer: for a message whose AVP is absent or "
                                     f"undecodable it raises, and the error handler of _receive_message "
                                     f"sends a second (5012) answer for the same request")
                            break
    # the transmission point itself: once send_message has queued the message nothing in it may
    # raise - the caller (an application inside handle_request, or a node handler) would take the
    # exception for a failed send, and the error handler of _receive_message answers again
    sm = nc.methods.get("send_message")
    cons = "Node.send_message:nothing-raises-after-queueing"
    ctx.inst(cons)
    if sm is None:
        ctx.error("Node.send_message not found")
    else:
        ctx.use(sm)
        gs = cfg_of(sm, effects=E)
        q = [n for n in gs.nodes if any(isinstance(c.func, ast.Attribute) and c.func.attr == "add_out_msg"
                                       for c in n.calls())]
        if len(q) != 1:
            ctx.fail(cons, sm.loc(), f"send_message queues the message {len(q)} times")
        else:
            after = gs.reach([d for l, d in q[0].succ if l != "exc"])
            esc = [t for t in after if t.raises and any(d is gs.raise_exit for l, d in t.succ
                                                        if l in ("exc", "raise"))]
            if esc:
                t = esc[0]
                why = E.why(sm, sorted(t.raises)[0])
                ctx.fail(cons, gs.loc(t), f"`{t.text(70)}` can raise {sorted(t.raises)} after the message "
                         f"has been queued for transmission: for an answer sent from handle_request "
                         f"the exception reaches the error handler of _receive_message, which "
                         f"transmits a second (5012) answer for the same request", steps=why)
    from . import c17
    ctx.include(c17.run, {"C17-R3"}, "C07-R3c",
                "the request's origin recorded for the bookkeeping that runs after an answer is "
                "queued is a bytes value (a list-valued Origin-Host of an untyped message raises "
                "there and the error handler answers the request a second time)", floor=3,
                constructs=lambda c: "origin-is-bytes" in c)
    ctx.cur("C07-R3")
    # in _receive_message itself: sends inside the try body would be followed by handler send
    g = R.g
    for s in R.sends:
        if any(isinstance(x, ast.Try) for x in s.lexical):
            ctx.inst("_receive_message:send-in-try")
            after = g.reach([d for l, d in s.succ if l != "exc"])
            if any(h in after for h in R.handlers):
                ctx.fail("_receive_message:send-in-try", g.loc(s), "an answer is sent inside the try "
                         "block and a later statement can raise into the handler that answers again")

    # interprocedural: helpers of _receive_message that may answer ------------------------
    _helper_sends(ctx, model, R, nc, F)

    # ---------------- R4 answer arms never answer ------------------------------------------
    ctx.rule("C07-R4", "nothing reachable from the answer arms (receive_cea/dwa/dpa, "
                       "_receive_app_answer) builds or sends an answer", floor=4)
    arms = {}
    for n, name, c in R.dispatch:
        facts = R.facts(n)
        arms[name] = (n, facts)
    for name, (n, facts) in sorted(arms.items()):
        isreq = R.is_request_fact(facts, True)
        isans = R.is_request_fact(facts, False)
        cons = f"_receive_message:arm({name})"
        ctx.inst(cons, sample={"request": isreq, "answer": isans})
        if not (isreq or isans):
            ctx.fail(cons, R.g.loc(n), f"{name} is dispatched without the R bit being decided")
            continue
        if isans:
            f = nc.methods.get(name)
            if f is None:
                continue
            for h in E.reachable_funcs([f]):
                if h.cls is None or h.cls.name not in ("Node",):
                    continue
                for x in A.walk_no_nested(h.node):
                    if isinstance(x, ast.Call) and (A.call_name(x) in ("self._generate_answer",)
                                                     or A.call_name(x).endswith(".to_answer")):
                        ctx.fail(cons, h.loc(x), f"{h.qualname}, reachable from the answer arm "
                                 f"{name}, builds an answer: the node answers an answer")
    # identifiers of generated answers are not overwritten
    ctx.rule("C07-R5", "identifiers/flags of a generated answer are not overwritten in node.py",
             floor=1)
    n_ans = 0
    for f, call in sites:
        par = A.parents(f.node)
        st = call
        while not isinstance(st, ast.stmt):
            st = par[st]
        tg = [A.dotted(t) for t in A.store_targets(st)]
        for av in tg:
            n_ans += 1
            ctx.inst(f"{f.qualname}:{av}.header")
            for x in A.walk_no_nested(f.node):
                if isinstance(x, (ast.Assign, ast.AugAssign)):
                    for t in A.store_targets(x):
                        d = A.dotted(t)
                        if d.startswith(f"{av}.header"):
                            ctx.fail(f"{f.qualname}:{av}.header", f.loc(x),
                                     f"`{ast.unparse(x)[:80]}` overwrites a header field of the "
                                     f"generated answer: it no longer mirrors the request")
    ga = nc.methods.get("_generate_answer")
    if ga is not None:
        for x in A.walk_no_nested(ga.node):
            if isinstance(x, (ast.Assign, ast.AugAssign)):
                for t in A.store_targets(x):
                    if ".header" in A.dotted(t):
                        ctx.fail("Node._generate_answer:header", ga.loc(x), "_generate_answer modifies a header")

    # ... nor on the way to the wire: the functions every answer passes through
    ctx.rule("C07-R5b", "the transmit path shared by requests and answers (send_message, "
                        "route_answer, _record_answer, send_answer, add_out_msg, the writer) stores "
                        "header fields only where the message is known to be a request", floor=4)
    ac = model.cls("node.application", "Application")
    path = [(nc, "send_message"), (nc, "route_answer"), (nc, "_record_answer"), (ac, "send_answer"),
            (pc_cls(model), "add_out_msg"), (pc_cls(model), "work_write_queue")]
    for ci, name in path:
        f = ci.methods.get(name)
        cons = f"{ci.name}.{name}:header-stores"
        if f is None:
            ctx.error(f"{ci.name}.{name} not found", rule="C07-R5b")
            continue
        ctx.use(f)
        ctx.inst(cons, rule="C07-R5b")
        gf = cfg_of(f)
        atf = Atomizer(model, f.module, f.cls)
        for n in gf.nodes:
            if n.kind != "stmt" or not isinstance(n.ast, (ast.Assign, ast.AugAssign, ast.AnnAssign)):
                continue
            for t in A.store_targets(n.ast):
                d = A.dotted(t)
                if ".header." not in d:
                    continue
                subj = d.split(".header.")[0]
                facts = must_facts(gf, atf, n)
                if (f"{subj}.header.is_request", "truthy", None, True) in facts:
                    continue
                ctx.fail(cons, gf.loc(n), f"`{ast.unparse(n.ast)[:90]}` in {f.qualname} rewrites a header "
                         f"field of a message that may be an answer (no `{subj}.header.is_request` "
                         f"guard): an answer to a request whose identifier is 0 / an answer on its "
                         f"way out no longer carries the identifiers of the request it answers",
                         rule="C07-R5b")

    # ---------------- R6 second submission fails ----------------------------------------------
    route_answer_discipline(ctx, "C07-R6")
    from .common_node import waiting_table_keys
    waiting_table_keys(ctx, "C07-R6b")
    from .common_node import stat_counters_synchronised
    stat_counters_synchronised(ctx, "C07-R8")
    from . import c20
    ctx.include(c20.run, {"C20-R2"}, "C07-R7",
                "an answer built from a request has the request bit cleared and mirrors its "
                "identifiers (header flow of Message.to_answer)", floor=5)


def pc_cls(model):
    return model.cls("node.peer", "PeerConnection")


def _mentions(e: ast.AST, names: set) -> bool:
    return any(isinstance(x, ast.Name) and x.id in names for x in ast.walk(e))


def _message_derived(f) -> set:
    """Locals of a handler whose value is computed from the received message parameter."""
    params = [a.arg for a in f.node.args.args]
    derived = {params[2]} if len(params) > 2 else set()
    changed = True
    while changed:
        changed = False
        for n in A.walk_no_nested(f.node):
            tg, val = [], None
            if isinstance(n, ast.Assign):
                tg, val = n.targets, n.value
            elif isinstance(n, ast.For):
                tg, val = [n.target], n.iter
            elif isinstance(n, ast.AnnAssign) and n.value is not None:
                tg, val = [n.target], n.value
            if val is None or not _mentions(val, derived):
                continue
            for t in tg:
                for y in ast.walk(t):
                    if isinstance(y, ast.Name) and isinstance(y.ctx, ast.Store) and y.id not in derived:
                        derived.add(y.id)
                        changed = True
    return derived


def _sends_answer(model, F, f, _memo={}) -> bool:
    """f (a Node method) can transmit a node-originated answer (directly or through callees)."""
    key = id(f.node)
    if key in _memo:
        return _memo[key]
    _memo[key] = False
    res = False
    for h in F.reachable_funcs([f], depth=4):
        if h.cls is None or h.cls.name != "Node":
            continue
        if h.name in ("send_cer", "send_dwr", "send_dpr", "send_message"):
            continue
        for n in A.walk_no_nested(h.node):
            if isinstance(n, ast.Call) and A.call_name(n) == "self.send_message":
                res = True
    _memo[key] = res
    return res


def _return_summary(model, F, f):
    """[(truthiness of the returned constant or None if unknown, may_have_sent, surely_sent)]"""
    g = cfg_of(f, effects=F)
    senders = [n for n in g.nodes if n.kind in ("stmt", "test") and (
        any(A.call_name(c) == "self.send_message" for c in n.calls()))]
    out = []
    ends = [n for n in g.nodes if n.kind == "stmt" and isinstance(n.ast, ast.Return)]
    fall = [p for l, p in g.exit.pred if not (p.kind == "stmt" and isinstance(p.ast, ast.Return))]
    for r in ends:
        v = r.ast.value
        truth = None
        if v is None:
            truth = False
        elif isinstance(v, ast.Constant):
            truth = bool(v.value)
        may = any(g.can_reach(s, r) for s in senders)
        sure = bool(senders) and g.dominated(r, senders)
        out.append((truth, may, sure, g.loc(r)))
    if fall:
        may = any(any(g.can_reach(s, p) or s is p for p in fall) for s in senders)
        out.append((False, may, False, f.loc()))
    return out


def _helper_sends(ctx, model, R, nc, F):
    g = R.g
    at = R.at
    nodes = []        # (node, {label: may_send})
    for n in g.nodes:
        if n.kind not in ("stmt", "test"):
            continue
        info = {}
        if any(A.call_name(c) == "self.send_message" for c in n.calls()):
            info = {"*": True}
        for c in n.calls():
            nm = A.call_name(c)
            if not nm.startswith("self.") or nm in ("self.send_message", "self._generate_answer"):
                continue
            h = nc.methods.get(nm.split(".", 1)[1])
            if h is None or not _sends_answer(model, F, h):
                continue
            summ = _return_summary(model, F, h)
            if n.kind == "test" and (n.ast is c or (isinstance(n.ast, ast.UnaryOp) and n.ast.operand is c)):
                a = at.node_atom(n)
                for lab in ("T", "F"):
                    truth = (lab == "T") ^ a.flip
                    may = any(m for t, m, s, w in summ if t is None or t == truth)
                    info[lab] = info.get(lab, False) or may
            else:
                info["*"] = info.get("*", False) or any(m for t, m, s, w in summ)
        if any(info.values()):
            nodes.append((n, info))
    cons = "_receive_message:one-answer-across-helpers"
    ctx.inst(cons, rule="C07-R3", sample=[f"{g.loc(n)}: {n.text(50)} {i}" for n, i in nodes])
    for a, ia in nodes:
        for lab, dst in a.succ:
            if lab in ("exc", "raise"):
                continue
            if not (ia.get("*") or ia.get(lab)):
                continue
            reach = g.reach([dst], skip_labels=("exc",))
            for b, ib in nodes:
                if b is a or b not in reach:
                    continue
                if any(ib.values()):
                    ctx.fail(cons, g.loc(b), f"after `{a.text(60)}` (which may already have answered "
                             f"the request{' although it reports the opposite' if lab == 'F' else ''}) "
                             f"the handling continues to `{b.text(60)}`, which answers again: two "
                             f"answers for one request", rule="C07-R3",
                             steps=[f"{g.loc(a)}: {a.text(80)} [{lab}]", f"{g.loc(b)}: {b.text(80)}"])
                    return


def _site_tag(g, n, f) -> str:
    par = A.parents(f.node)
    x = n.ast
    while x in par:
        x = par[x]
        if isinstance(x, ast.ExceptHandler):
            return "except"
        if isinstance(x, ast.If):
            t = ast.unparse(x.test)
            key = "".join(ch for ch in t if ch.isalnum() or ch in "_.")[:48]
            return "if-" + key
        if isinstance(x, ast.match_case):
            return "case-" + "".join(ch for ch in ast.unparse(x.pattern) if ch.isalnum() or ch in "_.")[:40]
    return "body"
