"""C19 - per-transaction and per-connection state is released; nothing grows with use."""
from __future__ import annotations

import ast

from ..report import Ctx
from ..srcmodel import AnalysisError, ClassInfo
from ..cfg import cfg_of
from ..atoms import Atomizer, must_facts
from ..lockset import call_sites
from .. import astutil as A
from .common_node import closed_connections_are_removed, connection_table_pairing

TECHNIQUE = "resource pairing: discovery of container attributes, growth/shrink site extraction, " \
            "frozen classification table, CFG must-facts of the shrink sites, ownership of threads/sockets"
EXPLANATION = (
    "All container attributes (dict/list/set/deque/Queue created in __init__ or as dataclass "
    "default) of Node, Application, ThreadingApplication, PeerConnection, Peer, PeerStats and "
    "SecondSlotCounter are discovered from the source together with their growth sites (item "
    "store, setdefault, append, add, put, +=) and shrink sites (del, pop, remove, clear, get on "
    "queues, reassignment) outside __init__. Each container must be classified by the frozen "
    "table in this module as paired (with the function that must shrink it, whose delete must "
    "not depend on anything but membership), bounded (deque(maxlen=...) or pruned in the "
    "growing function), configuration-keyed (grows only from the configuration API / keyed by "
    "command name or result-code range) or owned-by-a-consumer; a container that is not in the "
    "table, or a growth site outside the functions the table allows, stops the check. Worker "
    "threads and sockets are paired by the ownership rules of C18 and by the framing-loop "
    "progress rule of C05 (a reader that spins never ends).")
ASSUMPTIONS = [
    "not decided: retained-object counts for N transactions as an executed fact",
    "transactions whose answer never arrives keep their record (the property quantifies over histories "
    "in which every request has been answered)",
    "configuration (add_peer/add_application/start) is not 'use'",
]

CLASSES = [("node.node", "Node"), ("node.application", "Application"),
           ("node.application", "ThreadingApplication"), ("node.peer", "PeerConnection"),
           ("node.peer", "Peer"), ("node.peer", "PeerStats"), ("node.peer", "PeerCounters"),
           ("node._helpers", "SecondSlotCounter")]

CONTAINER_CTORS = {"dict", "list", "set", "deque", "collections.deque", "queue.Queue",
                   "queue.LifoQueue", "queue.PriorityQueue", "Queue", "defaultdict",
                   "collections.defaultdict", "OrderedDict"}

# kind: paired | bounded | config | consumed ; grow: functions allowed to grow it ;
# shrink: functions that must contain a shrink site
TABLE = {
    ("Node", "connections"): ("paired", {"_add_peer_connection"}, {"remove_peer_connection"}),
    ("Node", "peer_sockets"): ("paired", {"_add_peer_connection"}, {"remove_peer_connection"}),
    ("Node", "socket_peers"): ("paired", {"_add_peer_connection"}, {"remove_peer_connection"}),
    ("Node", "_half_ready_connections"): ("paired", {"_add_peer_connection"},
                                          {"remove_peer_connection", "_assign_peer_connection"}),
    ("Node", "_peer_waiting_answer"): ("paired", {"_receive_app_request"},
                                       {"route_answer", "send_message", "remove_peer_connection"}),
    ("Node", "_app_waiting_answer"): ("paired", {"route_request"},
                                      {"_receive_app_answer", "remove_peer_connection"}),
    ("Node", "_origin_waiting_answer"): ("paired", {"_receive_message"},
                                         {"_record_answer", "remove_peer_connection"}),
    ("Node", "_sent_answers"): ("bounded-values", {"_record_answer"}, set()),
    ("Node", "statistics_history"): ("bounded", {"_collect_stats"}, set()),
    ("Node", "_peer_routes"): ("config", {"add_application", "add_peer"}, set()),
    ("Node", "peers"): ("config", {"add_peer"}, set()),
    ("Node", "applications"): ("config", {"add_application"}, set()),
    ("Node", "vendor_ids"): ("config", set(), set()),
    ("Node", "ip_addresses"): ("config", set(), set()),
    ("Node", "tcp_sockets"): ("config", {"start"}, set()),
    ("Node", "sctp_sockets"): ("config", {"start"}, set()),
    ("Application", "_answer_waiting"): ("paired", {"send_request"}, {"send_request"}),
    ("ThreadingApplication", "_recv_msg_queue"): ("consumed", {"receive_request"}, {"_wait_for_recv_msg"}),
    ("ThreadingApplication", "_resp_msg_queue"): ("consumed", {"_process_recv_msg"}, {"_wait_for_resp_msg"}),
    ("ThreadingApplication", "_thread_slots"): ("consumed", {"_wait_for_recv_msg"},
                                                {"_wait_for_resp_msg", "_wait_for_recv_msg"}),
    ("PeerConnection", "_read_buffer_queue"): ("consumed", {"add_in_bytes"}, {"work_read_queue"}),
    ("PeerConnection", "_write_msg_queue"): ("consumed", {"add_out_msg"}, {"work_write_queue"}),
    ("PeerConnection", "auth_application_ids"): ("config", set(), set()),
    ("PeerConnection", "acct_application_ids"): ("config", set(), set()),
    ("PeerConnection", "host_ip_address"): ("config", set(), set()),
    ("Peer", "ip_addresses"): ("config", set(), set()),
    ("PeerStats", "processed_req_time_total"): ("bounded", {"add_processed_req_time"}, set()),
    ("PeerStats", "processed_req_time"): ("keyed-bounded", {"add_processed_req_time"}, set()),
    ("PeerStats", "sent_result_code_range_counters"): ("keyed", {"add_sent_result_code"}, set()),
    ("SecondSlotCounter", "_slots"): ("pruned", {"add_count"}, {"add_count"}),
}

GROW_METHODS = {"append", "appendleft", "add", "put", "put_nowait", "setdefault", "extend", "insert",
                "update"}
SHRINK_METHODS = {"pop", "popleft", "popitem", "remove", "discard", "clear", "get", "get_nowait"}


def _is_container_ctor(v: ast.expr | None) -> str | None:
    if v is None:
        return None
    if isinstance(v, (ast.Dict, ast.DictComp)):
        return "dict"
    if isinstance(v, (ast.List, ast.ListComp)):
        return "list"
    if isinstance(v, (ast.Set, ast.SetComp)):
        return "set"
    if isinstance(v, ast.BoolOp) and isinstance(v.op, ast.Or):
        for x in v.values:
            k = _is_container_ctor(x)
            if k:
                return k
        return None
    if isinstance(v, ast.Call):
        nm = A.call_name(v)
        if nm in CONTAINER_CTORS:
            return nm
        if nm.endswith("field"):
            for k in v.keywords:
                if k.arg == "default_factory" and ast.unparse(k.value) in CONTAINER_CTORS:
                    return ast.unparse(k.value)
    return None


def discover(model) -> dict[tuple[str, str], tuple[ClassInfo, str, ast.AST]]:
    out = {}
    for mod, cn in CLASSES:
        ci = model.cls(mod, cn)
        init = ci.methods.get("__init__")
        if init is not None:
            for n in A.walk_no_nested(init.node):
                if isinstance(n, (ast.Assign, ast.AnnAssign)) and getattr(n, "value", None) is not None:
                    k = _is_container_ctor(n.value)
                    if not k:
                        continue
                    for t in A.store_targets(n):
                        if isinstance(t, ast.Attribute) and A.dotted(t.value) == "self":
                            out[(cn, t.attr)] = (ci, k, n)
        for name, v in ci.class_assigns.items():
            k = _is_container_ctor(v)
            if k and name != "avp_def":
                out[(cn, name)] = (ci, k, v)
    return out


def sites(model, attr: str):
    """(func, node, kind) growth/shrink sites of  <x>.<attr>  in the node package; follows a
    local alias of an element (waiting = self.T[h]; waiting[k] = v)."""
    grow, shrink = [], []
    for f in model.all_funcs():
        if ".node" not in f.module.name or f.name == "__init__":
            continue
        aliases = set()
        for n in A.walk_no_nested(f.node):
            if isinstance(n, ast.Assign) and len(n.targets) == 1 and isinstance(n.targets[0], ast.Name):
                v = n.value
                base = v.value if isinstance(v, ast.Subscript) else \
                    (v.func.value if isinstance(v, ast.Call) and isinstance(v.func, ast.Attribute)
                     and v.func.attr in ("get", "setdefault") else None)
                if isinstance(base, ast.Attribute) and base.attr == attr:
                    aliases.add(n.targets[0].id)

        def is_t(e):
            if isinstance(e, ast.Attribute) and e.attr == attr:
                return True
            if isinstance(e, ast.Subscript) and isinstance(e.value, ast.Attribute) and e.value.attr == attr:
                return True            # element of the table (inner container)
            if isinstance(e, ast.Call) and isinstance(e.func, ast.Attribute) and e.func.attr in ("get", "setdefault") \
                    and isinstance(e.func.value, ast.Attribute) and e.func.value.attr == attr:
                return True            # element of the table, looked up tolerantly
            return isinstance(e, ast.Name) and e.id in aliases
        for n in A.walk_no_nested(f.node):
            if isinstance(n, ast.Assign):
                for t in n.targets:
                    if isinstance(t, ast.Subscript) and is_t(t.value):
                        grow.append((f, n))
            elif isinstance(n, ast.AugAssign) and is_t(n.target) and isinstance(n.op, ast.Add):
                grow.append((f, n))
            elif isinstance(n, ast.Delete):
                for t in n.targets:
                    if isinstance(t, ast.Subscript) and is_t(t.value):
                        shrink.append((f, n))
            elif isinstance(n, ast.Call) and isinstance(n.func, ast.Attribute) and is_t(n.func.value):
                if n.func.attr in GROW_METHODS:
                    grow.append((f, n))
                elif n.func.attr in SHRINK_METHODS:
                    if n.func.attr == "get" and not ("queue" in attr or "slots" in attr):
                        continue       # dict.get is a lookup
                    shrink.append((f, n))
    return grow, shrink


from .common_node import selects_own_entries


def run(ctx: Ctx):
    model = ctx.model
    from .common_node import names_resolve
    names_resolve(ctx, "C19-GN")
    from .common_node import taken_socket_is_closed
    taken_socket_is_closed(ctx, "C19-G11")
    ctx.rule("C19-G12", "the sender's own waiting record is released with the connection its request "
                        "went over", floor=1)
    _nc = model.cls("node.node", "Node")
    _rem = _nc.methods.get("remove_peer_connection")
    ctx.inst("remove_peer_connection:waiters-released", rule="C19-G12")
    if _rem is not None:
        ctx.use(_rem)
        _src = ast.unparse(_rem.node)
        if "_app_waiting_answer" in _src and not any(k in _src for k in ("receive_answer", "_answer_waiting", ".event.set", "connection_lost")):
            ctx.fail("remove_peer_connection:waiters-released", _rem.loc(),
                     "remove_peer_connection sweeps the node's request->application records of the lost "
                     "connection but tells the applications nothing: the senders blocked in send_request keep "
                     "their Application._answer_waiting records and stay blocked until their own time-out "
                     "(for ever with timeout=None) although no answer can arrive any more "
                     "(findings/audit3/C19-2)", rule="C19-G12")
    from .common_node import clock_agreement
    clock_agreement(ctx, "C19-G10", {("node.peer", "PeerConnection", "_created"): ["lifetime"]})
    found = discover(model)
    ctx.note(f"container attributes discovered: {len(found)}")

    # ---------------- G0 classification ------------------------------------------------------
    ctx.rule("C19-G0", "every discovered container is classified; growth sites only in the "
                       "functions the classification allows", floor=25)
    for key, (ci, kind, node) in sorted(found.items()):
        cons = f"{key[0]}.{key[1]}"
        ctx.use(ci)
        if key not in TABLE:
            ctx.inst(cons, nontrivial=False)
            grow_u, shrink_u = sites(model, key[1])
            if grow_u and not shrink_u:
                # no classification needed to decide this one: entries are added at run time and
                # nothing in the package ever removes one
                f_, n_ = grow_u[0]
                ctx.fail(f"{cons}:never-released", f_.loc(n_),
                         f"{cons} ({kind}) gets entries in {sorted({f.qualname for f, _ in grow_u})} "
                         f"(`{ast.unparse(n_)[:70]}`) and no function of the package removes one: "
                         f"the container grows with every use for the lifetime of the node",
                         expected="a release paired with every addition (or a bounded window)",
                         observed="growth sites only")
                continue
            ctx.error(f"unclassified container {cons} ({kind}) at {ci.loc(node)}: per-use growth "
                      f"cannot be ruled out - classify it in dv/rules/c19.py", rule="C19-G0")
            continue
        tkind, grow_ok, shrink_need = TABLE[key]
        grow, shrink = sites(model, key[1])
        grow = [(f, n) for f, n in grow if f.cls is None or f.cls.name in
                (key[0], "Node", "ThreadingApplication", "Application", "PeerConnection", "PeerStats")]
        ctx.inst(cons, sample={"container": cons, "ctor": kind, "class": tkind,
                               "grow": sorted({f.qualname for f, _ in grow}),
                               "shrink": sorted({f.qualname for f, _ in shrink})})
        for f, n in grow:
            if f.name not in grow_ok and tkind != "config" or (tkind == "config" and f.name not in grow_ok
                                                                 and grow_ok):
                if key in (("Node", "vendor_ids"),):
                    continue
                ctx.fail(f"{cons}:grows-in({f.qualname})", f.loc(n),
                         f"{cons} ({tkind}) also grows in {f.qualname} (`{ast.unparse(n)[:70]}`), which "
                         f"the classification does not allow: an entry per use without a matching "
                         f"release")
    for key in TABLE:
        if key not in found:
            ctx.inst(f"{key[0]}.{key[1]}", nontrivial=False)
            ctx.note(f"classified container {key[0]}.{key[1]} no longer exists")

    # ---------------- G1/G2 paired containers -----------------------------------------------------
    ctx.rule("C19-G1", "a paired container is released by the function that completes the "
                       "transaction / removes the connection, depending on nothing but membership",
             floor=8)
    for key, (tkind, grow_ok, shrink_need) in sorted(TABLE.items()):
        if tkind != "paired" or key not in found:
            continue
        grow, shrink = sites(model, key[1])
        for fn_name in sorted(shrink_need):
            cons = f"{key[0]}.{key[1]}:released-in({fn_name})"
            here = [(f, n) for f, n in shrink if f.name == fn_name]
            ctx.inst(cons, sample=[f.loc(n) for f, n in here])
            if not here:
                ctx.fail(cons, found[key][0].loc(), f"{fn_name} no longer releases entries of "
                         f"{key[0]}.{key[1]}: one entry per "
                         f"{'connection' if 'conn' in key[1] or 'socket' in key[1] else 'transaction'} "
                         f"stays for ever")
                continue
            f, n = here[0]
            g = cfg_of(f)
            at = Atomizer(model, f.module, f.cls)
            node = [x for x in g.nodes if x.kind == "stmt" and (x.ast is n or n in list(x.walk()))]
            if not node:
                continue
            facts = must_facts(g, at, node[0])
            extra = [x for x in facts if not _membership_fact(x, key[1], f)]
            if extra and not _allowed_extra(key, fn_name, extra):
                ctx.fail(cons + "#conditional", g.loc(node[0]),
                         f"{fn_name} releases the {key[0]}.{key[1]} entry only under {extra}: on the "
                         f"other branch (e.g. a connection that maps to no configured peer) the "
                         f"entry is retained for ever")
    # the function that completes a transaction releases its record on EVERY path on which the
    # record is present: a return, or an exception, between finding the record and removing it
    # leaves one entry behind per transaction that takes that path
    from ..effects import effects_of as _eff_of
    Eg = _eff_of(model)
    for tbl, fn_name in (("_origin_waiting_answer", "_record_answer"),
                         ("_app_waiting_answer", "_receive_app_answer")):
        fr = model.cls("node.node", "Node").methods.get(fn_name)
        cons = f"Node.{tbl}:released-on-every-path({fn_name})"
        ctx.inst(cons)
        if fr is None:
            continue
        ge = cfg_of(fr, effects=Eg, inline=False)
        ate = Atomizer(model, fr.module, fr.cls)
        rel = [x for x in ge.nodes if x.kind == "stmt" and any(
            (isinstance(c.func, ast.Attribute) and c.func.attr == "pop" and A.dotted(c.func.value) == f"self.{tbl}")
            for c in x.calls())] + [x for x in ge.nodes if x.kind == "stmt" and isinstance(x.ast, ast.Delete)
                                    and f"self.{tbl}" in ast.unparse(x.ast)]
        if not rel:
            continue        # reported by the rule above
        # locals holding the result of <table>.get(key): None means "no record"
        holders = {t.id for x in A.walk_no_nested(fr.node) if isinstance(x, ast.Assign)
                   and isinstance(x.value, ast.Call) and isinstance(x.value.func, ast.Attribute)
                   and x.value.func.attr == "get" and A.dotted(x.value.func.value) == f"self.{tbl}"
                   for t in x.targets if isinstance(t, ast.Name)}

        def absent(fs):
            return any((f_[1] == "in-expr" and f_[2] == f"self.{tbl}" and f_[3] is False)
                       or (f_[0] in holders and ((f_[1] == "is" and f_[2] is None and f_[3] is True)
                                                 or (f_[1] == "truthy" and f_[3] is False))) for f_ in fs)
        before = ge.reach([ge.entry], blocked=rel)
        for x in sorted(before, key=lambda y: y.line):
            leaves = (x.kind == "stmt" and isinstance(x.ast, ast.Return)) or any(d is ge.exit for l, d in x.succ)
            escapes = bool(x.raises) and any(d is ge.raise_exit for l, d in x.succ if l in ("exc", "raise"))
            if not (leaves or escapes) or x is ge.entry:
                continue
            fs = must_facts(ge, ate, x)
            if absent(fs):
                continue
            if escapes and not leaves:
                # a statement that precedes the look-up itself cannot strand a record it has not found
                gets = [y for y in ge.nodes if y.kind in ("stmt", "test") and f"self.{tbl}" in ast.unparse(y.ast)]
                if gets and not any(ge.can_reach(y, x) and y is not x for y in gets):
                    continue
            ctx.fail(cons, ge.loc(x), f"{fn_name} can {'return' if leaves else 'raise ' + str(sorted(x.raises))} at "
                     f"`{x.text(60)}` with the record of the transaction still in Node.{tbl}: every "
                     f"transaction that takes this path leaves its entry behind, the table grows with "
                     f"the number of such transactions"
                     + (f" ({'; '.join(Eg.why_at(fr, sorted(x.raises)[0], x.line))[:160]})" if escapes and not leaves else ""),
                     expected=f"self.{tbl}.pop(key) before every exit on which the record was found")
            break
    # Application._answer_waiting: in finally
    app = model.cls("node.application", "Application")
    sr = app.methods.get("send_request")
    cons = "Application._answer_waiting:finally"
    ctx.inst(cons)
    if sr is None or not any(isinstance(t, ast.Try) and t.finalbody and "_answer_waiting" in
                             ast.unparse(t.finalbody[0]) for t in ast.walk(sr.node)):
        ctx.fail(cons, app.loc(), "the waiter of a request is not removed in a finally clause")
    # origin record only for requests
    nc = model.cls("node.node", "Node")
    rm = nc.methods.get("_receive_message")
    g = cfg_of(rm)
    at = Atomizer(model, rm.module, nc)
    msg = [a.arg for a in rm.node.args.args][2]
    ins = [n for n in g.nodes if n.kind == "stmt" and any(
        isinstance(t, ast.Subscript) and A.dotted(t.value) == "self._origin_waiting_answer" for t in n.stores())]
    cons = "Node._origin_waiting_answer:requests-only"
    ctx.inst(cons)
    if ins and (f"{msg}.header.is_request", "truthy", None, True) not in must_facts(g, at, ins[0]):
        ctx.fail(cons, g.loc(ins[0]), "an origin record is created for received answers too; it is "
                 "only ever removed when the node sends the matching answer, so every received "
                 "answer (DWA, CEA, application answers) leaves an entry behind")
    connection_table_pairing(ctx, "C19-G1b")

    # ---------------- G3 bounded containers ----------------------------------------------------------
    ctx.rule("C19-G3", "bounded containers: deque(maxlen=...) / pruned in the growing function", floor=4)
    for key, (tkind, grow_ok, _) in sorted(TABLE.items()):
        if key not in found:
            continue
        ci, kind, node = found[key]
        cons = f"{key[0]}.{key[1]}:bounded"
        if tkind == "bounded":
            ctx.inst(cons)
            v = node.value if isinstance(node, (ast.Assign, ast.AnnAssign)) else node
            ml = [k for k in v.keywords if k.arg == "maxlen"] if isinstance(v, ast.Call) else []
            val = model.try_fold(ml[0].value, ci.module, ci) if ml else None
            if not (isinstance(val, int) and val > 0):
                ctx.fail(cons, ci.loc(node), f"{key[0]}.{key[1]} is documented as a fixed-size window "
                         f"but is not created with a positive constant maxlen")
        elif tkind in ("bounded-values", "keyed-bounded"):
            ctx.inst(cons)
            creators = []
            for f in ci.all_funcs:
                for n in A.walk_no_nested(f.node):
                    if isinstance(n, ast.Assign) and any(
                            isinstance(t, ast.Subscript) and isinstance(t.value, ast.Attribute)
                            and t.value.attr == key[1] for t in n.targets):
                        creators.append((f, n.value, n,
                                         [t for t in n.targets if isinstance(t, ast.Subscript)][0].slice))
                    elif isinstance(n, ast.Call) and isinstance(n.func, ast.Attribute) \
                            and n.func.attr == "setdefault" and isinstance(n.func.value, ast.Attribute) \
                            and n.func.value.attr == key[1] and len(n.args) == 2:
                        creators.append((f, n.args[1], n, n.args[0]))     # get-or-create in one step
            ok = creators and all(
                isinstance(v_, ast.Call) and A.call_name(v_) in ("deque", "collections.deque")
                and any(k.arg == "maxlen" for k in v_.keywords) for f, v_, _n, _k in creators)
            if not ok:
                ctx.fail(cons, ci.loc(), f"the per-key windows of {key[0]}.{key[1]} are not "
                         f"deque(maxlen=...)")
            # ... and the set of keys itself: one window per key is bounded only if keys are
            # released (or come from a fixed set)
            cons_k = f"{key[0]}.{key[1]}:keys-never-released"
            ctx.inst(cons_k)
            dels = []
            for f in ci.all_funcs:
                for n in A.walk_no_nested(f.node):
                    if isinstance(n, ast.Delete) and any(
                            isinstance(t, ast.Subscript) and isinstance(t.value, ast.Attribute)
                            and t.value.attr == key[1] for t in n.targets):
                        dels.append(f)
                    if isinstance(n, ast.Call) and isinstance(n.func, ast.Attribute) \
                            and n.func.attr in ("pop", "popitem", "clear") \
                            and isinstance(n.func.value, ast.Attribute) and n.func.value.attr == key[1]:
                        dels.append(f)
            # frozen after reading the code: key sets that are finite by construction
            FINITE_KEYS = {("PeerStats", "processed_req_time"):
                           "keyed by Message.name - a command name of the dictionary or 'Unknown'"}
            if creators and not dels and key not in FINITE_KEYS:
                f0, _v0, n0, kexpr = creators[0]
                ctx.fail(cons_k, f0.loc(n0), f"{key[0]}.{key[1]} gets one window per `{ast.unparse(kexpr)}` "
                         f"(created in {f0.qualname}) and no key is ever removed: the table grows by one "
                         f"entry for every distinct value - for the retransmission windows every "
                         f"distinct Origin-Host, including those of rejected unknown peers and of the "
                         f"clients behind a relay - and survives connection close and stop()")
        elif tkind == "pruned":
            ctx.inst(cons)
            f = ci.methods.get("add_count")
            okp = False
            if f is not None:
                for w in ast.walk(f.node):
                    if isinstance(w, ast.While) and any(
                            isinstance(c, ast.Call) and isinstance(c.func, ast.Attribute)
                            and c.func.attr == "pop" and A.dotted(c.func.value) == f"self.{key[1]}"
                            for c in ast.walk(w)):
                        okp = "cutoff" in ast.unparse(w.test) or "_maxage" in ast.unparse(f.node)
            if not okp:
                ctx.fail(cons, ci.loc(), f"{key[0]}.{key[1]} is no longer pruned to its maximum age "
                         f"when it grows")

    # ---------------- G4 threads and sockets ------------------------------------------------------------
    ctx.include(_c18_run, {"C18-R4", "C18-R4b"}, "C19-G4",
                "every constructed PeerConnection (two worker threads) and its socket is registered "
                "or closed on every path; closed connections leave the tables", floor=5)
    ctx.include(_c18_run, {"C18-R3"}, "C19-G4g",
                "a CLOSING connection is released once its last queued message is done: the writer "
                "counts every message as done and wakes the node after each (otherwise the "
                "connection, its socket and both threads stay for ever)", floor=4,
                constructs=lambda c: "task_done" in c or "queued" in c)
    ctx.include(_c05_run, {"C05-R1", "C05-R4"}, "C19-G4b",
                "the connection reader cannot spin for ever or end silently (a spinning reader "
                "thread outlives its connection)", floor=2)
    ctx.include(_c14_run, {"C14-R1"}, "C19-G4f",
                "the connection thread - the only place where sockets are closed and table entries "
                "removed - cannot be ended by a fault of the fault model", floor=7,
                constructs=lambda c: "_handle_connections" in c)
    ctx.include(_c14_run, {"C14-R2", "C14-R3"}, "C19-G4c",
                "thread slots are returned; workers are started once and stopped by their owner", floor=8)
    # a dialled socket is closed when the dial fails before the socket is registered
    ctx.rule("C19-G4h", "_connect_to_peer: an exception between creating the socket and registering it "
                        "with the connection closes the socket", floor=1)
    from ..effects import fault_effects_of as _fe
    ctp = nc.methods.get("_connect_to_peer") if "nc" in dir() else model.cls("node.node", "Node").methods.get("_connect_to_peer")
    if ctp is None:
        ctx.error("Node._connect_to_peer not found", rule="C19-G4h")
    else:
        ctx.use(ctp)
        gc_ = cfg_of(ctp, effects=_fe(model))
        sdefs = [n for n in gc_.nodes if n.kind == "stmt" and isinstance(n.ast, ast.Assign)
                 and isinstance(n.ast.value, ast.Call)
                 and A.call_name(n.ast.value) in ("socket.socket", "sctp.sctpsocket_tcp", "sctp.sctpsocket")]
        for sd in sdefs:
            sv = A.dotted(sd.ast.targets[0])
            cons = f"_connect_to_peer:{A.call_name(sd.ast.value)}#closed-on-failure"
            ctx.inst(cons, rule="C19-G4h")
            settle = [n for n in gc_.nodes if any(
                (A.call_name(c) == f"{sv}.close") or
                (A.call_name(c) == "self._add_peer_connection" and any(A.dotted(a) == sv for a in c.args))
                for c in n.calls())]
            r = gc_.reach([d for l, d in sd.succ if l not in ("exc", "raise")], blocked=settle)
            # a settle node in a handler still lets the exception travel on: only count the
            # escape when no settle node lies on the path
            if gc_.raise_exit in r:
                esc = [n for n in r if n.raises and any(d is gc_.raise_exit for l, d in n.succ if l in ("exc", "raise"))]
                ctx.fail(cons, gc_.loc(esc[0] if esc else sd),
                         f"`{(esc[0] if esc else sd).text(70)}` can raise "
                         f"({sorted((esc[0].raises if esc else []) or [])}) after `{sv}` has been created and "
                         f"before it is registered with a connection: the exception leaves "
                         f"_connect_to_peer with the socket open and nothing referring to it (one "
                         f"descriptor per failed dial)", rule="C19-G4h",
                         expected=f"try: ... except: {sv}.close(); raise")
    from .common_node import connect_failure_closes, route_lists_not_aliased
    connect_failure_closes(ctx, "C19-G4e")
    route_lists_not_aliased(ctx, "C19-G6")
    # writer, readers and purge of the flat transaction tables agree on the key
    from .common_node import transaction_table_keys
    transaction_table_keys(ctx, "C19-G7")
    from .common_node import routed_record_rechecked, received_records_rechecked
    routed_record_rechecked(ctx, "C19-G8")
    received_records_rechecked(ctx, "C19-G9")
    ctx.include(_c06_run, {"C06-R3"}, "C19-G4d",
                "a connection refused by receive_cer is left in a state that the I/O loop or the "
                "timers tear down (CLOSING, or CONNECTED until the CER time-out): stored in any "
                "other state it keeps its threads, socket and table entries for ever", floor=8,
                constructs=lambda c: "state" in c)
    # PeerConnection.close stops both workers
    pc = model.cls("node.peer", "PeerConnection")
    cl = pc.methods.get("close")
    ctx.rule("C19-G5", "PeerConnection.close stops both workers; the failed-connect edge closes "
                       "socket and connection", floor=2)
    cons = "PeerConnection.close:stops-workers"
    ctx.inst(cons)
    if cl is None:
        ctx.error("PeerConnection.close not found")
    else:
        gc = cfg_of(cl)
        for attr in ("_read_thread", "_write_thread"):
            st = [n for n in gc.nodes if any(A.call_name(c) == f"self.{attr}.stop" for c in n.calls())]
            if not st or not gc.dominated(gc.exit, st):
                ctx.fail(cons, cl.loc(), f"close() does not stop {attr} on every path")
    # a constructor that fails half-way leaves no started worker behind
    pinit = pc.methods.get("__init__")
    cons = "PeerConnection.__init__:started-workers-stopped-on-failure"
    ctx.inst(cons)
    if pinit is not None:
        from ..effects import fault_effects_of
        gi = cfg_of(pinit, effects=fault_effects_of(model))
        starts = [n for n in gi.nodes if n.kind == "stmt" and any(
            isinstance(c.func, ast.Attribute) and c.func.attr == "start"
            and A.dotted(c.func.value).startswith("self._") for c in n.calls())]
        starts.sort(key=lambda n: getattr(n.ast, "lineno", 0))
        if len(starts) < 2:
            ctx.error(f"PeerConnection.__init__ starts {len(starts)} worker thread(s), expected 2")
        for i, n in enumerate(starts):
            if i == 0:
                continue
            prev = [A.dotted(c.func.value) for m in starts[:i] for c in m.calls()
                    if isinstance(c.func, ast.Attribute) and c.func.attr == "start"]
            stops = [x for x in gi.nodes if any(
                isinstance(c.func, ast.Attribute) and c.func.attr == "stop"
                and A.dotted(c.func.value) in prev for c in x.calls())]
            exc_t = [d for l, d in n.succ if l in ("exc", "raise")]
            if not n.raises:
                ctx.error("the fault model attaches no exception to Thread.start in PeerConnection.__init__")
                continue
            leak = any(d is gi.raise_exit for d in exc_t) or \
                gi.raise_exit in gi.reach([d for d in exc_t if d is not gi.raise_exit], normal_blocked=stops)
            if leak:
                ctx.fail(cons, gi.loc(n), f"`{n.text(50)}` can fail (RuntimeError: can't start new thread) "
                         f"after {prev} was started: the exception leaves the constructor, nobody holds "
                         f"the half-built connection and the started worker runs for ever - one per "
                         f"connection attempt")
    cp = nc.methods.get("_connect_to_peer")
    cons = "_connect_to_peer:failed-connect-releases"
    ctx.inst(cons)
    if cp is not None:
        gp = cfg_of(cp)
        for h in [n for n in gp.nodes if n.kind == "handler"]:
            body = gp.reach([h])
            rets = [n for n in body if n.kind == "stmt" and isinstance(n.ast, ast.Return)]
            for r in rets:
                pre = [n for n in body if any(A.call_name(c) == "self.close_connection_socket" for c in n.calls())]
                if not pre or not any(gp.can_reach(p, r) for p in pre):
                    ctx.fail(cons, gp.loc(r), "a synchronous connect failure returns without "
                             "close_connection_socket: the socket stays open and the connection's two "
                             "workers keep running, one set per failed attempt")


def _c18_run(ctx):
    from . import c18
    c18.run(ctx)


def _c05_run(ctx):
    from . import c05
    c05.run(ctx)


def _c06_run(ctx):
    from . import c06
    c06.run(ctx)


def _c14_run(ctx):
    from . import c14
    c14.run(ctx)


def _membership_fact(fact, attr: str, f) -> bool:
    s, op, v, t = fact
    txt = f"{s} {v}"
    if attr in txt:
        return True
    # facts about the key itself (k in table, table.get(k) is x) or about loop/None flags
    # derived from the table search
    if op in ("in-expr",) and attr in str(v):
        return True
    # `rec = table.get(k)` ... `rec is None`: the membership test, made with one look-up
    if op == "is" and v is None and isinstance(s, str) and s.isidentifier():
        for n in ast.walk(f.node):
            if isinstance(n, ast.Assign) and any(isinstance(tg, ast.Name) and tg.id == s for tg in n.targets) \
                    and isinstance(n.value, ast.Call) and isinstance(n.value.func, ast.Attribute) \
                    and n.value.func.attr == "get" and attr in ast.unparse(n.value.func.value):
                return True
    return False


def _allowed_extra(key, fn_name, extra) -> bool:
    """Conditions that legitimately guard a release."""
    ok = []
    for s, op, v, t in extra:
        if key == ("Node", "_peer_waiting_answer") and fn_name == "send_message" \
                and s.endswith(".header.is_request") and not t:
            ok.append(True)          # only answers complete a transaction
        elif key == ("Node", "_peer_waiting_answer") and fn_name == "route_answer":
            ok.append(True)          # raises NotRoutable on the other branches
        elif key == ("Node", "_half_ready_connections") and fn_name == "_assign_peer_connection":
            ok.append(True)          # early returns for unknown hosts; removal is the backstop
        elif key == ("Node", "_app_waiting_answer") and fn_name == "_receive_app_answer":
            ok.append(True)
        elif key == ("Application", "_answer_waiting"):
            ok.append(True)
        elif key in (("Node", "_origin_waiting_answer"), ("Node", "_app_waiting_answer")) \
                and fn_name == "remove_peer_connection" \
                and selects_own_entries((s, op, v, t)):
            ok.append(True)          # selects the removed connection's own entries (key prefix)
        else:
            ok.append(False)
    return all(ok)
