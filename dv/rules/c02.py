"""C02 - message codec, class dispatch, AVP search."""
from __future__ import annotations

import ast

from ..report import Ctx
from ..srcmodel import AnalysisError
from ..cfg import cfg_of
from ..atoms import Atomizer, must_facts
from ..tables import command_classes, command_modules, class_code
from .. import astutil as A
from .common_codec import no_hidden_state

TECHNIQUE = "layout extraction of the header pack/unpack siblings; registry table checks over " \
            "every command class; CFG must-facts of dispatch and search; purity check"
EXPLANATION = (
    "Structural analysis of message/_base.py and message/commands: the five header words written "
    "by MessageHeader.as_packed and read by from_bytes agree in order, shift (24) and mask "
    "(2^24-1); Message.as_bytes sets header.length = 20 + len(AVP bytes) before the header is "
    "rendered; flag bits are 0x80/0x40/0x20/0x10 with each property on its own bit. Every "
    "command class (all modules below commands/) has a literal 24-bit code, codes are unique per "
    "registry, modules are star-imported and exported, all_commands is built after the class "
    "definitions; every typed base's type_factory returns <Base>Request on the R-bit edge and "
    "<Base>Answer on the other; constructors store the class code; a decoded message gets its "
    "received flags back after construction; the AVP list is built in wire order from the end "
    "of the header; the search compares code and vendor on every level, recurses only into "
    "grouped AVPs, and its cache key contains every path element; no hidden module state.")
ASSUMPTIONS = [
    "not decided: byte-exact round trip of arbitrary AVP sequences; search results on arbitrary trees",
    "type.__subclasses__() lists direct subclasses in definition order",
]


def run(ctx: Ctx):
    model = ctx.model
    base = model.module("message._base")
    ctx.use(base)
    hdr = base.classes.get("MessageHeader")
    msg = base.classes.get("Message")
    if hdr is None or msg is None:
        raise AnalysisError("MessageHeader / Message not found")
    fold = lambda e, c=None: model.try_fold(e, base, c)

    # ---------------- R1 header layout -------------------------------------------------------
    ctx.rule("C02-R1", "header words: writer and reader agree (order, shift 24, mask 2^24-1); "
                       "length = 20 + AVP bytes set before rendering; flag bits", floor=8)
    wr = hdr.methods.get("as_packed")
    rd = hdr.methods.get("from_bytes")
    if wr is None or rd is None:
        raise AnalysisError("MessageHeader.as_packed / from_bytes not found")
    packs = sorted([n for n in ast.walk(wr.node) if isinstance(n, ast.Call)
                    and isinstance(n.func, ast.Attribute) and n.func.attr == "pack_uint"],
                   key=lambda n: n.lineno)
    cons = "MessageHeader.as_packed:words"
    ctx.inst(cons, sample=[ast.unparse(p.args[0]) for p in packs])

    def split_word(e):
        """('hi', shift, 'lo') for  (hi << s) | lo"""
        if isinstance(e, ast.BinOp) and isinstance(e.op, ast.BitOr):
            for a, b in ((e.left, e.right), (e.right, e.left)):
                if isinstance(a, ast.BinOp) and isinstance(a.op, ast.LShift):
                    return A.dotted(a.left), fold(a.right), A.dotted(b)
        return None
    w = [split_word(p.args[0]) or A.dotted(p.args[0]) for p in packs]
    want_w = [("self.version", 24, "self.length"), ("self.command_flags", 24, "self.command_code"),
              "self.application_id", "self.hop_by_hop_identifier", "self.end_to_end_identifier"]
    if w != want_w:
        ctx.fail(cons, wr.loc(), f"the header is written as {w}; RFC 6733: version<<24|length, "
                 f"flags<<24|code, application id, hop-by-hop id, end-to-end id")
    # the two 24-bit fields are bounded before they are or-ed with the octet above them
    gw = cfg_of(wr)
    atw = Atomizer(model, base, hdr)
    for hi, lo in (("self.version", "self.length"), ("self.command_flags", "self.command_code")):
        cons_b = f"MessageHeader.as_packed:{lo.split('.')[-1]}-fits-24-bits"
        ctx.inst(cons_b)
        pn = [n for n in gw.nodes if n.kind == "stmt" and any(
            isinstance(c.func, ast.Attribute) and c.func.attr == "pack_uint" and c.args
            and lo in ast.unparse(c.args[0]) for c in n.calls())]
        for n in pn:
            fx = must_facts(gw, atw, n)
            okb = any((f_[0] == lo and f_[1] == ">" and f_[3] is False and str(f_[2]) in ("16777215", "0xffffff"))
                      or (f_[1] == "chain" and f_[3] is True
                          and f_[0].replace(" ", "").endswith(f"{lo}<=16777215"))
                      or (f_[0] == lo and f_[1] == "<=" and f_[3] is True and str(f_[2]) == "16777215")
                      for f_ in fx)
            if not okb:
                ctx.fail(cons_b, gw.loc(n), f"`{lo}` is or-ed into the word that also carries `{hi}` "
                         f"without having been checked to fit 24 bits: a message of 16 MiB or more "
                         f"(a command code above 0xffffff) is written with a wrapped field and a "
                         f"changed {hi.split('.')[-1]} octet - the length field no longer equals the "
                         f"byte count and the receiver loses the framing of everything behind it")
    # reader
    cons = "MessageHeader.from_bytes:words"
    reads = sorted([n for n in ast.walk(rd.node) if isinstance(n, ast.Assign)
                    and isinstance(n.value, ast.Call) and A.call_name(n.value).endswith(".unpack_uint")],
                   key=lambda n: n.lineno)
    names = [A.dotted(n.targets[0]) for n in reads]
    ctx.inst(cons, sample=names)
    derived = {}
    for n in ast.walk(rd.node):
        if isinstance(n, ast.Assign) and isinstance(n.value, ast.BinOp) and isinstance(n.targets[0], ast.Name):
            v = n.value
            if isinstance(v.op, ast.RShift):
                derived[n.targets[0].id] = (A.dotted(v.left), ">>", fold(v.right))
            elif isinstance(v.op, ast.BitAnd):
                derived[n.targets[0].id] = (A.dotted(v.left), "&", fold(v.right))
    ctor = [n for n in ast.walk(rd.node) if isinstance(n, ast.Call) and A.call_name(n) in ("MessageHeader", "cls")]
    init = hdr.methods.get("__init__")
    iparams = [a.arg for a in init.node.args.args][1:]
    okr = len(reads) == 5 and len(ctor) == 1
    if okr:
        args = [A.dotted(a) for a in ctor[0].args] + [None] * 7
        bound = dict(zip(iparams, args))
        for k in ctor[0].keywords:
            bound[k.arg] = A.dotted(k.value)
        exp = {"version": (names[0], ">>", 24), "length": (names[0], "&", 0x00ffffff),
               "command_flags": (names[1], ">>", 24), "command_code": (names[1], "&", 0x00ffffff)}
        for fld, e in exp.items():
            if derived.get(bound.get(fld)) != e:
                okr = False
                ctx.fail(cons, rd.loc(), f"header field {fld} is read as {derived.get(bound.get(fld))}, "
                         f"expected word {'1' if e[0] == names[0] else '2'} {e[1]} {e[2]:#x}: it "
                         f"disagrees with the writer (shift 24 / 24-bit field)")
                break
        for fld, nm in (("application_id", names[2]), ("hop_by_hop_identifier", names[3]),
                        ("end_to_end_identifier", names[4])):
            if bound.get(fld) != nm:
                okr = False
                ctx.fail(cons + "#ids", rd.loc(), f"header field {fld} is not read from word "
                         f"{names.index(nm) + 1} (order of application id / hop-by-hop / end-to-end)")
                break
    else:
        ctx.fail(cons, rd.loc(), "the header is not read as five 32-bit words into one MessageHeader")
    lh = [n for n in ast.walk(rd.node) if isinstance(n, ast.Assign)
          and any(A.dotted(t).endswith(".length_header") for t in n.targets)]
    ctx.inst("MessageHeader.from_bytes:length_header")
    if not lh or not A.call_name(lh[0].value).endswith(".get_position"):
        ctx.fail("MessageHeader.from_bytes:length_header", rd.loc(), "length_header is not the "
                 "unpacker position after the header")
    ab = msg.methods.get("as_bytes")
    g = cfg_of(ab)
    cons = "Message.as_bytes:length"
    ctx.inst(cons)
    ls = [n for n in g.nodes if n.kind == "stmt" and any(A.dotted(t) == "self.header.length" for t in n.stores())]
    rn = [n for n in g.nodes if any(A.call_name(c) == "self.header.as_bytes" for c in n.calls())]
    if len(ls) != 1 or not rn or not g.dominated(rn[0], ls):
        ctx.fail(cons, ab.loc(), "header.length is not assigned before the header is rendered")
    else:
        v = ls[0].ast.value
        terms = []
        if isinstance(v, ast.BinOp) and isinstance(v.op, ast.Add):
            terms = [v.left, v.right]
        hl = None
        for t in terms:
            if isinstance(t, ast.Name):
                d = [n for n in ast.walk(ab.node) if isinstance(n, ast.Assign)
                     and any(A.dotted(x) == t.id for x in n.targets)]
                c = fold(d[0].value) if d else None
                if isinstance(c, int):
                    hl = c
            elif isinstance(fold(t), int):
                hl = fold(t)
        lens = [t for t in terms if isinstance(t, ast.Call) and A.call_name(t) == "len"]
        if hl != 20 or len(lens) != 1:
            ctx.fail(cons, g.loc(ls[0]), f"the Message Length field is not 20 + len(encoded AVPs) "
                     f"(`{ast.unparse(v)}`, header constant {hl})")
        ret = [n for n in g.nodes if n.kind == "stmt" and isinstance(n.ast, ast.Return)]
        if ret and lens:
            r = ret[0].ast.value
            if not (isinstance(r, ast.BinOp) and isinstance(r.op, ast.Add)
                    and A.call_name(r.left) == "self.header.as_bytes" if isinstance(r.left, ast.Call) else False) \
                    or A.dotted(r.right) != A.dotted(lens[0].args[0]):
                ctx.fail(cons + "#concat", g.loc(ret[0]), "the message is not header bytes followed by the AVP bytes whose length was counted")
    cons = "MessageHeader:flag-bits"
    ctx.inst(cons)
    bits = {k: fold(hdr.class_assigns.get(k), hdr) for k in
            ("command_flag_request_bit", "command_flag_proxiable_bit", "command_flag_error_bit",
             "command_flag_retransmit_bit")}
    if list(bits.values()) != [0x80, 0x40, 0x20, 0x10]:
        ctx.fail(cons, hdr.loc(), f"command flag bits are {bits}; RFC 6733: R=0x80 P=0x40 E=0x20 T=0x10")
    for prop, const in (("is_request", "command_flag_request_bit"), ("is_proxyable", "command_flag_proxiable_bit"),
                        ("is_error", "command_flag_error_bit"), ("is_retransmit", "command_flag_retransmit_bit")):
        g_, s_ = hdr.methods.get(prop), hdr.setters.get(prop)
        ctx.inst(f"MessageHeader.{prop}")
        if g_ is None or s_ is None:
            ctx.fail(f"MessageHeader.{prop}", hdr.loc(), f"{prop} getter/setter missing")
            continue
        gs, ss = ast.unparse(g_.node), ast.unparse(s_.node)
        others = [c for c in bits if c != const]
        if const not in gs or any(o in gs for o in others) or ss.count(const) != 2 \
                or any(o in ss for o in others) or "~" not in ss or "|" not in ss:
            ctx.fail(f"MessageHeader.{prop}", g_.loc(), f"{prop} does not test/set/clear exactly its own bit {const}")

    _registry(ctx, model, base, msg)
    _dispatch(ctx, model, base, msg)
    _search(ctx, model, base, msg)
    no_hidden_state(ctx, "C02-R7", [msg.methods["from_bytes"], base.funcs["_traverse_avp_tree"],
                                    hdr.methods["from_bytes"]]
                    + [m for m in (msg.methods.get("as_bytes"), hdr.methods.get("as_bytes"),
                                   hdr.methods.get("as_packed")) if m is not None],
                    {"all_commands"})
    _typed_sequence(ctx, model, base)
    from .common_codec import as_bytes_encodes_current
    as_bytes_encodes_current(ctx, "C02-R11")
    from . import c04 as _c04
    ctx.include(_c04.run, {"C04-R2"}, "C02-R13",
                "the member list of a Grouped AVP is published once it is complete (a search on "
                "another thread never sees a partly decoded group)", floor=1,
                constructs=lambda c: c.startswith("AvpGrouped.value"))
    ctx.include(_c04.run, {"C04-R1"}, "C02-R14",
                "decoding a message raises nothing but the library's decode errors (an exception of "
                "another class out of Message.from_bytes / Avp.from_unpacker means that some well-formed "
                "message - e.g. one with an AVP of an unlisted vendor - cannot be decoded at all, let "
                "alone re-encoded)", floor=3,
                constructs=lambda c: c.split(":")[0] in ("Message.from_bytes", "Avp.from_unpacker",
                                                         "Avp.from_bytes", "MessageHeader.from_bytes"))
    from .common_codec import no_shared_default_objects
    no_shared_default_objects(ctx, "C02-R12", [f_ for f_ in model.all_funcs() if ".message" in f_.module.name
                                               and ".commands." not in f_.module.name],
                              "the message package")


def _typed_sequence(ctx: Ctx, model, base):
    """A message decoded into its typed class exposes the AVP sequence that was on the wire."""
    from ..tables import command_classes
    ctx.rule("C02-R8", "a typed (DefinedMessage) decode keeps the received AVP list: `avps` / "
                       "`find_avps` / `as_bytes` of a decoded message do not rebuild it from the "
                       "attributes", floor=1)
    dm = base.classes.get("DefinedMessage")
    cons = "DefinedMessage.avps:regenerated-from-attributes"
    ctx.inst(cons)
    if dm is None:
        ctx.error("DefinedMessage not found", rule="C02-R8")
        return
    getter = dm.methods.get("avps")
    regenerates = getter is not None and any(
        isinstance(c, ast.Call) and A.call_name(c).endswith("generate_avps_from_defs")
        for c in ast.walk(getter.node))
    cleared = []
    for c in command_classes(model):
        pi = c.methods.get("__post_init__")
        if pi is None:
            continue
        for n in ast.walk(pi.node):
            if isinstance(n, ast.Assign) and any(A.dotted(t) == "self._avps" for t in n.targets) \
                    and isinstance(n.value, ast.List) and not n.value.elts:
                cleared.append(c.name)
                break
    if regenerates and cleared:
        ctx.fail(cons, dm.loc(getter.node), f"every typed constructor ({len(cleared)} classes, e.g. "
                 f"{cleared[0]}) empties the received AVP list after copying values into attributes, and "
                 f"DefinedMessage.avps then rebuilds the list from the attributes in avp_def order: for a "
                 f"message decoded into its typed class the AVP sequence differs from the wire - a "
                 f"repeated single-valued AVP survives once, AVPs come out in definition order with "
                 f"the definitions' M flags, members of grouped AVPs a container does not declare "
                 f"(and has no additional_avps for) are dropped, and find_avps() searches that rebuilt "
                 f"list")


    # what the public mutators add is what the getter - and therefore as_bytes() - returns
    ctx.rule("C02-R10", "DefinedMessage: AVPs added through append_avp() / the avps setter are part of "
                        "what the avps getter returns in every state of the message", floor=2)
    if dm is not None and getter is not None:
        g_ = cfg_of(getter)
        at_ = Atomizer(model, base, dm)
        # lists the getter can return without `_additional_avps`, and under which condition
        alone = []
        for n in g_.nodes:
            if n.kind == "stmt" and isinstance(n.ast, ast.Return) and n.ast.value is not None \
                    and "_additional_avps" not in ast.unparse(n.ast.value):
                alone.append((n, must_facts(g_, at_, n)))
        for mut_name, mut in (("append_avp", dm.methods.get("append_avp")), ("avps.setter", dm.setters.get("avps"))):
            cons_m = f"DefinedMessage.{mut_name}:reaches-encoded-list"
            ctx.inst(cons_m)
            if mut is None:
                continue
            gm = cfg_of(mut)
            atm = Atomizer(model, base, dm)
            for n in gm.nodes:
                if n.kind != "stmt":
                    continue
                writes_add = any("_additional_avps" in A.dotted(t) for t in n.stores()) or any(
                    isinstance(c.func, ast.Attribute) and "_additional_avps" in A.dotted(c.func.value)
                    for c in n.calls())
                if not writes_add:
                    continue
                fm = must_facts(gm, atm, n)
                for rn, fr in alone:
                    # the getter returns a list without the additional AVPs under fr; the mutator
                    # writes them under fm: a violation unless the two conditions exclude each other
                    excl = any((a[0], a[1], a[2], not a[3]) in fm for a in fr)
                    if not excl:
                        ctx.fail(cons_m, gm.loc(n), f"`{n.text(60)}` stores into _additional_avps, which the "
                                 f"avps getter leaves out when it returns `{ast.unparse(rn.ast.value)}` "
                                 f"({sorted(map(str, fr))[:2]}): for a message decoded with plain_msg=True "
                                 f"(it keeps the received list) the added AVPs are silently missing from "
                                 f"as_bytes()")
                        break
    from . import c03
    ctx.include(c03.run, {"C03-R5"}, "C02-R9",
                "the attribute lists a typed constructor decodes repeated AVPs into are distinct "
                "objects, one per list attribute (a shared list makes `avps` / `as_bytes` of the "
                "decoded message emit every such AVP under each attribute's code)", floor=100,
                constructs=lambda c: c.endswith("#own-list"))


def _registry(ctx: Ctx, model, base, msg):
    ctx.rule("C02-R2", "registry: literal 24-bit codes, unique per registry, modules imported and "
                       "exported, all_commands built after the definitions, base-protocol codes "
                       "match the constants", floor=150)
    cmods = command_modules(model)
    init = model.module("message.commands")
    defined = base.classes.get("DefinedMessage")
    undefined = base.classes.get("UndefinedMessage")
    star = {ev.target for ev in init.events if ev.kind == "star"}
    roots = {"Message": msg, "DefinedMessage": defined, "UndefinedMessage": undefined}
    regs = {k: {} for k in roots}
    for c in command_classes(model):
        bases = model.bases(c)
        direct = [k for k, r in roots.items() if r in bases]
        cons = f"{c.name}:code"
        if not direct:
            continue
        ctx.use(c)
        code = class_code(model, c)
        own = c.class_assigns.get("code")
        ctx.inst(cons, sample={"class": c.name, "code": code} if c.name in ("CreditControl", "MTData") else None)
        if own is None or not isinstance(code, int) or isinstance(code, bool) or not (0 < code < 2 ** 24):
            ctx.fail(cons, c.loc(), f"{c.name} has no literal 24-bit command code of its own ({code!r}): "
                     f"it is registered under the inherited code 0 / not at all")
            continue
        for k in direct:
            if code in regs[k]:
                ctx.fail(f"{c.name}:code-collision", c.loc(), f"{c.name} and {regs[k][code].name} both "
                         f"use command code {code}: all_commands keeps only the later one, the other "
                         f"command is decoded as the wrong class")
            regs[k][code] = c
        if c.module is not init:
            if c.module.name not in star:
                ctx.fail(f"{c.name}:imported", c.loc(), f"module {c.module.name} is not star-imported by "
                         f"commands/__init__.py: {c.name} is never registered")
            if c.module.all_literal is not None and c.name not in c.module.all_literal:
                ctx.fail(f"{c.name}:exported", c.loc(), f"{c.name} is missing from its module's __all__")
    # precedence: all_commands = Message.__subclasses__ then DefinedMessage then UndefinedMessage
    merged = {}
    for k in ("Message", "DefinedMessage", "UndefinedMessage"):
        for code, c in regs[k].items():
            if code in merged and merged[code] is not c:
                ctx.fail(f"{c.name}:code-collision", c.loc(), f"{c.name} and {merged[code].name} share "
                         f"command code {code} across registries")
            merged[code] = c
    ctx.note(f"command classes registered: {len(merged)}")
    # all_commands construction
    cons = "all_commands:construction"
    ctx.inst(cons)
    ac = [st for st in init.tree.body if isinstance(st, (ast.Assign, ast.AnnAssign))
          and A.dotted(A.store_targets(st)[0]) == "all_commands"]
    upd = [st for st in init.tree.body if isinstance(st, ast.Expr) and isinstance(st.value, ast.Call)
           and A.call_name(st.value) == "all_commands.update"]
    srcs = " ".join(ast.unparse(x) for x in ac + upd)
    last_class = max((st.lineno for st in init.tree.body if isinstance(st, ast.ClassDef)), default=0)
    last_import = max((st.lineno for st in init.tree.body if isinstance(st, ast.ImportFrom)), default=0)
    ok = ac and all(f"{k}.__subclasses__()" in srcs for k in roots) and "m.code: m" in srcs.replace("  ", " ")
    if not ok:
        ctx.fail(cons, init.relpath + ":1", "all_commands is not built from the __subclasses__() of "
                 "Message, DefinedMessage and UndefinedMessage keyed by their code")
    elif min(st.lineno for st in ac + upd) < max(last_class, last_import):
        ctx.fail(cons, f"{init.relpath}:{ac[0].lineno}", "all_commands is built before all command "
                 "classes are defined/imported: later classes are never registered")
    consts = model.module("message.constants")
    for cname, cls in (("CMD_CAPABILITIES_EXCHANGE", "CapabilitiesExchange"),
                       ("CMD_DEVICE_WATCHDOG", "DeviceWatchdog"), ("CMD_DISCONNECT_PEER", "DisconnectPeer")):
        cons = f"{cls}:code==constants.{cname}"
        ctx.inst(cons)
        b = init.lookup_class(cls)
        if b is None or class_code(model, b) != model.fold_name(consts, cname):
            ctx.fail(cons, b.loc() if b else init.relpath + ":1", f"{cls}.code differs from {cname}: the "
                     f"node's dispatch and the codec disagree on the base-protocol command")
    rf = init.funcs.get("register")
    cons = "commands.register"
    ctx.inst(cons)
    if rf is None:
        ctx.fail(cons, init.relpath + ":1", "commands.register not found")
    else:
        p = [a.arg for a in rf.node.args.args][0]
        st = [n for n in ast.walk(rf.node) if isinstance(n, ast.Assign) and any(
            isinstance(t, ast.Subscript) and A.dotted(t.value) == "all_commands" for t in n.targets)]
        if len(st) != 1 or ast.unparse(st[0].targets[0].slice) != f"{p}.code" or A.dotted(st[0].value) != p:
            ctx.fail(cons, rf.loc(), "register() does not store the class under its own code in all_commands")


def _dispatch(ctx: Ctx, model, base, msg):
    ctx.rule("C02-R3", "type_factory of every typed base: R bit -> <Base>Request, else "
                       "<Base>Answer; constructors store the class code; from_bytes dispatch and "
                       "flag restoration", floor=30)
    defined = base.classes.get("DefinedMessage")
    init = model.module("message.commands")
    bases_ = [c for c in command_classes(model) if defined in model.bases(c)]
    for b in bases_:
        subs = {c.name: c for c in model.subclasses(b, direct=True)}
        req, ans = subs.get(f"{b.name}Request"), subs.get(f"{b.name}Answer")
        tf = b.methods.get("type_factory")
        cons = f"{b.name}.type_factory"
        ctx.inst(cons)
        if req is None or ans is None:
            if tf is not None:
                ctx.fail(cons, b.loc(), f"{b.name} has a type_factory but no {b.name}Request/{b.name}Answer subclasses")
            continue
        if req.module is not b.module or ans.module is not b.module:
            ctx.fail(cons, b.loc(), f"{b.name}Request/Answer are not defined next to their base")
        if tf is None or not tf.is_classmethod:
            ctx.fail(cons, b.loc(), f"{b.name} does not override type_factory: decoded messages are "
                     f"plain {b.name} objects without attributes")
            continue
        g = cfg_of(tf)
        at = Atomizer(model, b.module, b)
        h = [a.arg for a in tf.node.args.args][1]
        outcome = {}
        for n in g.nodes:
            if n.kind == "stmt" and isinstance(n.ast, ast.Return):
                facts = must_facts(g, at, n)
                v = n.ast.value
                if isinstance(v, ast.IfExp):
                    a = at.atom(v.test)
                    if a.subject == f"{h}.is_request" and a.op == "truthy":
                        outcome[not a.flip] = A.dotted(v.body)
                        outcome[a.flip] = A.dotted(v.orelse)
                    continue
                if (f"{h}.is_request", "truthy", None, True) in facts:
                    outcome[True] = A.dotted(v)
                elif (f"{h}.is_request", "truthy", None, False) in facts:
                    outcome[False] = A.dotted(v)
                else:
                    outcome.setdefault(False, A.dotted(v))   # fall-through return after `if is_request: return`
        if outcome.get(True) != req.name or outcome.get(False) != ans.name:
            ctx.fail(cons, tf.loc(), f"{b.name}.type_factory returns {outcome.get(True)} for requests and "
                     f"{outcome.get(False)} for answers; expected {req.name} / {ans.name}")
        for nm in (req.name, ans.name):
            if b.module.lookup_class(nm) is not subs[nm]:
                ctx.fail(cons + "#shadow", b.loc(), f"the name {nm} in {b.module.name} does not denote the subclass of {b.name}")
    # R4 command code stored by constructors
    ctx.rule("C02-R4", "every command class stores its code into the header on construction and "
                       "chains to super().__post_init__()", floor=150)
    roots = [base.classes.get("DefinedMessage"), base.classes.get("UndefinedMessage")]
    for c in command_classes(model):
        if not any(r in model.bases(c) for r in roots):
            continue
        pi = c.methods.get("__post_init__")
        cons = f"{c.name}.__post_init__"
        ctx.inst(cons)
        if pi is None:
            ctx.fail(cons, c.loc(), f"{c.name} has no __post_init__ storing its command code: a newly "
                     f"created {c.name} is encoded with command code 0")
            continue
        st = [n for n in ast.walk(pi.node) if isinstance(n, ast.Assign)
              and any(A.dotted(t) == "self.header.command_code" for t in n.targets)]
        sup = [n for n in ast.walk(pi.node) if isinstance(n, ast.Call) and A.call_name(n) == "super().__post_init__"]
        if len(st) != 1 or A.dotted(st[0].value) != "self.code":
            ctx.fail(cons, pi.loc(), f"{c.name}.__post_init__ does not store self.code into header.command_code")
        if not sup:
            ctx.fail(cons + "#super", pi.loc(), f"{c.name}.__post_init__ does not call super().__post_init__()")
    for gc in (msg, base.classes.get("DefinedMessage"), base.classes.get("UndefinedMessage")):
        pi = gc.methods.get("__post_init__") if gc else None
        cons = f"{gc.name}.__post_init__:generic"
        ctx.inst(cons)
        if pi is not None:
            for n in ast.walk(pi.node):
                if isinstance(n, (ast.Assign, ast.AugAssign)):
                    for t in A.store_targets(n):
                        if A.dotted(t).startswith("self.header."):
                            ctx.fail(cons, pi.loc(n), f"the generic class {gc.name} overwrites "
                                     f"`{A.dotted(t)}` on construction: a message with an unknown "
                                     f"command code is decoded (and answered) with the class default "
                                     f"{gc.name}.code = 0 instead of the received code")
    # from_bytes
    fb = msg.methods.get("from_bytes")
    g = cfg_of(fb)
    at = Atomizer(model, base, msg)
    ctx.rule("C02-R5", "Message.from_bytes: registry lookup by code, type_factory unless plain, "
                       "generic class for unknown codes, received flags restored after construction",
             floor=2)
    hv = [n for n in g.nodes if n.kind == "stmt" and isinstance(n.ast, ast.Assign)
          and isinstance(n.ast.value, ast.Call) and A.call_name(n.ast.value) == "MessageHeader.from_bytes"]
    hname = A.dotted(hv[0].ast.targets[0]) if hv else "header"
    ctor = [n for n in g.nodes if n.kind == "stmt" and isinstance(n.ast, ast.Assign)
            and isinstance(n.ast.value, ast.Call) and isinstance(n.ast.value.func, ast.Name)
            and len(n.ast.value.args) == 2 and A.dotted(n.ast.value.args[0]) == hname]
    cons = "Message.from_bytes:dispatch"
    ctx.inst(cons)
    if len(ctor) != 1:
        ctx.fail(cons, fb.loc(), "from_bytes does not construct exactly one message from (header, avps)")
        return
    tv = ctor[0].ast.value.func.id
    defs = [n for n in g.nodes if n.kind == "stmt" and isinstance(n.ast, ast.Assign)
            and any(A.dotted(t) == tv for t in n.ast.targets)]
    kinds = {}
    ctv = None
    for d in defs:
        v = ast.unparse(d.ast.value)
        facts = must_facts(g, at, d)
        known = (f"{hname}.command_code", "in-expr", "all_commands", True) in facts
        unknown = (f"{hname}.command_code", "in-expr", "all_commands", False) in facts
        if v == "UndefinedMessage":
            # every store of the generic class sits where the code is known to be unregistered
            kinds["generic"] = kinds.get("generic", True) and unknown
        elif ".type_factory(" in v:
            kinds["factory"] = kinds.get("factory", True) and known \
                and ("plain_msg", "truthy", None, False) in facts \
                and v.endswith(f".type_factory({hname})")
            ctv = v.split(".type_factory")[0]
        elif isinstance(d.ast.value, ast.Name):
            kinds.setdefault("base", True)
            if not known:
                kinds["base"] = False
        else:
            kinds["other:" + v[:40]] = False
    cd = [n for n in g.nodes if n.kind == "stmt" and isinstance(n.ast, ast.Assign)
          and ast.unparse(n.ast.value) == f"all_commands[{hname}.command_code]"]
    regvar = A.dotted(cd[0].ast.targets[0]) if cd else None
    for d in defs:
        if isinstance(d.ast.value, ast.Name) and d.ast.value.id not in ("UndefinedMessage", regvar):
            kinds[f"base:{d.ast.value.id}"] = False
    if not cd or kinds.get("generic") is not True or kinds.get("factory") is not True \
            or not kinds.get("base", False) or any(v is False for v in kinds.values()):
        ctx.fail(cons, fb.loc(), f"from_bytes class selection is not: all_commands[code] -> "
                 f"type_factory(header) unless plain_msg (falling back to the registered class), "
                 f"UndefinedMessage for unknown codes ({kinds})")
    # restoration of the received flags
    cons = "Message.from_bytes:flags-restored"
    ctx.inst(cons)
    mv = A.dotted(ctor[0].ast.targets[0])
    stores_pi = set()
    for c in command_classes(model):
        pi = c.methods.get("__post_init__")
        if pi is None:
            continue
        for n in ast.walk(pi.node):
            if isinstance(n, ast.Assign):
                for t in n.targets:
                    d = A.dotted(t)
                    if d.startswith("self.header.") and d != "self.header.command_code":
                        stores_pi.add(d.split(".")[-1])
    ctx.note(f"header fields stored by typed constructors besides command_code: {sorted(stores_pi)}")
    flagish = {f for f in stores_pi if f.startswith("is_") or f == "command_flags"}
    other = stores_pi - flagish
    if other:
        ctx.fail(cons + "#fields", fb.loc(), f"typed constructors overwrite the header fields {sorted(other)}")
    if flagish:
        saved = [n for n in g.nodes if n.kind == "stmt" and isinstance(n.ast, ast.Assign)
                 and ast.unparse(n.ast.value) == f"{hname}.command_flags" and g.can_reach(n, ctor[0])]
        rest = [n for n in g.nodes if n.kind == "stmt" and isinstance(n.ast, ast.Assign)
                and any(A.dotted(t) in (f"{mv}.header.command_flags", f"{hname}.command_flags") for t in n.ast.targets)
                and g.can_reach(ctor[0], n)]
        rets = [n for n in g.nodes if n.kind == "stmt" and isinstance(n.ast, ast.Return)]
        ok = saved and rest and A.dotted(rest[0].ast.value) == A.dotted(saved[0].ast.targets[0]) \
            and all(g.dominated(r, rest) for r in rets)
        if not ok:
            ctx.fail(cons, g.loc(ctor[0]), f"typed constructors store class defaults into "
                     f"{sorted(flagish)}; from_bytes does not put the received command flags back "
                     f"after constructing the object: a decoded message whose P bit differs from the "
                     f"class default comes back with changed flags")


def _search(ctx: Ctx, model, base, msg):
    ctx.rule("C02-R6", "AVP list in wire order from the end of the header; search compares code and "
                       "vendor on every level, recurses only into grouped AVPs, cache key complete", floor=4)
    fb = msg.methods.get("from_bytes")
    g = cfg_of(fb)
    cons = "Message.from_bytes:avp-sequence"
    ctx.inst(cons)
    loops = [n for n in g.nodes if n.kind == "loop"]
    apps = [n for n in g.nodes if n.kind == "stmt" and any(
        isinstance(c.func, ast.Attribute) and c.func.attr == "append" for c in n.calls())]
    sp = [n for n in g.nodes if n.kind == "stmt" and any(A.call_name(c).endswith(".set_position") for c in n.calls())]
    ok = len(loops) == 1 and len(apps) == 1 and sp
    if ok:
        c = [c for c in apps[0].calls() if isinstance(c.func, ast.Attribute) and c.func.attr == "append"][0]
        inner = c.args[0]
        ok = isinstance(inner, ast.Call) and A.call_name(inner) == "Avp.from_unpacker"
        spc = [c for c in sp[0].calls() if A.call_name(c).endswith(".set_position")][0]
        ok = ok and ast.unparse(spc.args[0]).endswith(".length_header") and g.dominated(loops[0], sp)
        lst = A.dotted(c.func.value)
        ctor = [n for n in g.nodes if n.kind == "stmt" and isinstance(n.ast, ast.Assign)
                and isinstance(n.ast.value, ast.Call) and len(n.ast.value.args) == 2
                and A.dotted(n.ast.value.args[1]) == lst]
        ok = ok and len(ctor) == 1
    if not ok:
        ctx.fail(cons, fb.loc(), "the AVP list is not built by appending Avp.from_unpacker results in "
                 "order, starting at header.length_header, and handed to the constructor")
    tr = base.funcs.get("_traverse_avp_tree")
    if tr is None:
        raise AnalysisError("_traverse_avp_tree not found")
    ctx.use(tr)
    g = cfg_of(tr)
    at = Atomizer(model, base, None)
    avps_p, path_p = [a.arg for a in tr.node.args.args][:2]
    loops = [n for n in g.nodes if n.kind == "iter"]
    cons = "_traverse_avp_tree:match"
    ctx.inst(cons)
    if len(loops) != 1 or A.dotted(loops[0].ast.iter) != avps_p:
        ctx.fail(cons, tr.loc(), "the search does not visit the AVP list in order")
        return
    av = ast.unparse(loops[0].ast.target)
    # code / vendor variables = path[0]
    cv = None
    # the element matched at this level: path[0] with the rest of the path handed down, or
    # path[depth] with a depth parameter that starts at 0 and is handed down incremented
    dparams = [a.arg for a, d in zip(tr.node.args.args[len(tr.node.args.args) - len(tr.node.args.defaults):],
                                     tr.node.args.defaults) if isinstance(d, ast.Constant) and d.value == 0
               and type(d.value) is int]
    depth_p = None
    for n in ast.walk(tr.node):
        if isinstance(n, ast.Assign) and isinstance(n.targets[0], ast.Tuple):
            v_ = ast.unparse(n.value).replace(" ", "")
            if v_ == f"{path_p}[0]":
                cv = [e.id for e in n.targets[0].elts]
            for dp in dparams:
                if v_ == f"{path_p}[{dp}]" and not any(
                        isinstance(x, ast.Name) and x.id == dp and isinstance(x.ctx, ast.Store) for x in ast.walk(tr.node)):
                    cv = [e.id for e in n.targets[0].elts]
                    depth_p = dp
    if not cv or len(cv) != 2:
        ctx.fail(cons, tr.loc(), "the first path element is not split into (code, vendor)")
        return
    collect = [n for n in g.nodes if n.kind == "stmt" and (
        any(isinstance(c.func, ast.Attribute) and c.func.attr == "append" for c in n.calls())
        or (isinstance(n.ast, ast.AugAssign) and isinstance(n.ast.op, ast.Add)))]
    if len(collect) < 2:
        ctx.fail(cons, tr.loc(), "the search lost one of its cases (leaf reached / descend into grouped)")
    for n in collect:
        facts = must_facts(g, at, n)
        code_ok = any(f_[1] == "==x" and f_[3] and {f_[0], f_[2]} == {f"{av}.code", cv[0]} for f_ in facts)
        vend_ok = any(f_[1] == "==x" and f_[3] and {f_[0], f_[2]} == {f"{av}.vendor_id", cv[1]} for f_ in facts)
        if not (code_ok and vend_ok):
            ctx.fail(cons, g.loc(n), f"an AVP is accepted at a path element without both "
                     f"`{av}.code == {cv[0]}` and `{av}.vendor_id == {cv[1]}` holding: a (code, 0) "
                     f"element also matches the same code under another vendor")
            break
    cons = "_traverse_avp_tree:recursion"
    ctx.inst(cons)
    rec = [n for n in g.nodes if n.kind == "stmt" and any(A.call_name(c) == tr.name for c in n.calls())]
    if len(rec) != 1:
        ctx.fail(cons, tr.loc(), "the search does not recurse exactly once")
    else:
        c = [c for c in rec[0].calls() if A.call_name(c) == tr.name][0]
        args = [A.resolve_local_chain(tr.node, a).replace(" ", "") for a in c.args]
        facts = must_facts(g, at, rec[0])
        grouped = any(f_[0].replace(" ", "") == f"isinstance({av},AvpGrouped)" and f_[3] for f_ in facts)
        want_args = [f"{av}.value", f"{path_p}[1:]"] if depth_p is None else [f"{av}.value", path_p, f"{depth_p}+1"]
        if args != want_args or not grouped:
            ctx.fail(cons, g.loc(rec[0]), "the search does not descend into the children of grouped "
                     "AVPs only, with the remaining path")
        if not (isinstance(rec[0].ast, ast.AugAssign) or "extend" in rec[0].text()):
            ctx.fail(cons + "#order", g.loc(rec[0]), "results of the sub-search are not concatenated in order")
    fa = msg.methods.get("find_avps")
    cons = "Message.find_avps:cache-key"
    ctx.inst(cons)
    gf = cfg_of(fa)
    keydef = [n for n in ast.walk(fa.node) if isinstance(n, ast.Assign) and isinstance(n.value, ast.Call)
              and isinstance(n.value.func, ast.Attribute) and n.value.func.attr == "join"]
    ok = False
    if keydef:
        gen = keydef[0].value.args[0]
        if isinstance(gen, (ast.GeneratorExp, ast.ListComp)) and isinstance(gen.elt, ast.JoinedStr):
            tgt = gen.generators[0].target
            names = [e.id for e in tgt.elts] if isinstance(tgt, ast.Tuple) else []
            used = [ast.unparse(v.value) for v in gen.elt.values if isinstance(v, ast.FormattedValue)]
            sep = [v.value for v in gen.elt.values if isinstance(v, ast.Constant)]
            vararg = fa.node.args.vararg.arg if fa.node.args.vararg else None
            ok = len(names) == 2 and used == names and sep and A.dotted(gen.generators[0].iter) == vararg \
                and not gen.generators[0].ifs
    if not ok:
        ctx.fail(cons, fa.loc(), "the search cache key is not built from every (code, vendor) element "
                 "of the path: different searches share a cache entry")
    else:
        kv = A.dotted(keydef[0].targets[0])
        rets = [n for n in ast.walk(fa.node) if isinstance(n, ast.Return) and n.value is not None]
        st = [n for n in ast.walk(fa.node) if isinstance(n, ast.Assign) and any(
            isinstance(t, ast.Subscript) and "__find_cache" in ast.unparse(t.value) and A.dotted(t.slice) == kv
            for t in n.targets)]
        if not st:
            ctx.fail(cons + "#store", fa.loc(), "search results are not cached under the path key")
        if any(isinstance(n, ast.Global) for n in ast.walk(fa.node)) or "self." not in ast.unparse(st[0].targets[0] if st else fa.node):
            ctx.fail(cons + "#scope", fa.loc(), "the search cache is not per message")
        # every other input of the search is either part of the key or keeps the cache out of
        # play: the cache is read and written only where such a parameter has its default
        cons_i = "Message.find_avps:cache-key#inputs"
        ctx.inst(cons_i)
        vararg = fa.node.args.vararg.arg if fa.node.args.vararg else None
        others = [a.arg for a in fa.node.args.args[1:] + fa.node.args.kwonlyargs if a.arg != vararg]
        atf = Atomizer(model, base, msg)
        cache_nodes = [n for n in gf.nodes if n.kind in ("stmt", "test") and n.ast is not None
                       and "__find_cache" in n.text(300) and n is not None
                       and not (n.kind == "stmt" and isinstance(n.ast, ast.Assign)
                                and A.dotted(n.ast.targets[0]) == "self.__find_cache")]
        par_fa = A.parents(fa.node)

        def _alias_of_checked(prm):
            """*prm* is a second name of another optional input: read only under `prm is not None`,
            where it is copied into that input (`q = prm`) - the cache then answers to q alone."""
            loads_ = [x for x in ast.walk(fa.node) if isinstance(x, ast.Name) and x.id == prm and isinstance(x.ctx, ast.Load)]
            tgt = set()
            for x in loads_:
                cur, ok_ = x, False
                while cur in par_fa:
                    p_ = par_fa[cur]
                    if isinstance(p_, ast.If) and ast.unparse(p_.test).replace(" ", "") == f"{prm}isnotNone":
                        ok_ = True
                        if cur is not p_.test:
                            for st_ in ast.walk(p_):
                                if isinstance(st_, ast.Assign) and isinstance(st_.value, ast.Name) and st_.value.id == prm:
                                    tgt |= {t_.id for t_ in st_.targets if isinstance(t_, ast.Name)}
                        break
                    cur = p_
                if not ok_:
                    return False
            return bool(tgt) and tgt <= set(others) - {prm}
        for prm in others:
            used = any(isinstance(x, ast.Name) and x.id == prm for x in ast.walk(fa.node))
            if not used or prm in ast.unparse(keydef[0].value) or _alias_of_checked(prm):
                continue
            for cn in cache_nodes:
                fx = must_facts(gf, atf, cn)
                if (prm, "is", None, True) not in fx and (prm, "truthy", None, False) not in fx:
                    ctx.fail(cons_i, gf.loc(cn), f"the search cache (`{cn.text(50)}`) is used although the "
                             f"result also depends on `{prm}`, which is not part of the key: a search of "
                             f"another AVP list returns - and stores - results of the message's own "
                             f"tree or of an earlier list")
                    break
        # a remembered result describes the AVP list as it was: every public mutator of the list
        # forgets the results, and a list that is generated per call (a message with attribute
        # definitions) is not answered from the cache at all
        cons_v = "Message.find_avps:cache-invalidated"
        ctx.inst(cons_v)
        dmc = base.classes.get("DefinedMessage")

        def _resets(fn, depth=2):
            for x in ast.walk(fn.node):
                if isinstance(x, ast.Assign) and any(isinstance(t, ast.Attribute) and "find_cache" in t.attr
                                                     for t in x.targets):
                    return True
                if depth and isinstance(x, ast.Call) and isinstance(x.func, ast.Attribute) \
                        and A.dotted(x.func.value) == "self":
                    for kls in (msg, dmc):
                        h = kls.methods.get(x.func.attr) if kls else None
                        if h is not None and h is not fn and _resets(h, depth - 1):
                            return True
            return False
        for kls in (msg, dmc):
            if kls is None:
                continue
            for nm, fn in list(kls.methods.items()) + [(f"{k}.setter", v) for k, v in kls.setters.items()]:
                if nm in ("__init__", "__post_init__") or fn.is_property and ".setter" not in nm:
                    continue
                mut = any((isinstance(x, ast.Assign) and any(
                    isinstance(t, ast.Attribute) and t.attr in ("_avps", "_additional_avps") and A.dotted(t.value) == "self"
                    for t in x.targets)) or (isinstance(x, ast.Call) and isinstance(x.func, ast.Attribute)
                                             and x.func.attr in ("append", "extend", "insert", "remove", "pop", "clear")
                                             and A.dotted(x.func.value) in ("self._avps", "self._additional_avps"))
                          for x in ast.walk(fn.node))
                if mut and not _resets(fn):
                    ctx.fail(cons_v, fn.loc(), f"{kls.name}.{nm} changes the AVP list of the message without "
                             f"forgetting the remembered search results: find_avps keeps returning what the "
                             f"message held when it was searched first (an appended AVP is encoded but "
                             f"not found)")
        bypass = any(isinstance(x, ast.Compare) and len(x.ops) == 1 and isinstance(x.ops[0], (ast.IsNot, ast.Is))
                     and "self._avps" in ast.unparse(x) for x in ast.walk(fa.node))
        if dmc is not None and not bypass:
            ctx.fail(cons_v + "#generated-list", fa.loc(), "find_avps answers from the cache also when the "
                     "message's AVP list is generated per call from its attributes (a message with "
                     "attribute definitions): after `msg.session_id = ...` the search returns the old value")
        cache_attr = None
        if st:
            t0 = [t for t in st[0].targets if isinstance(t, ast.Subscript)][0]
            cache_attr = t0.value.attr if isinstance(t0.value, ast.Attribute) else None
        init_ = msg.methods.get("__init__")
        per_instance = cache_attr and any(
            isinstance(n, ast.Assign) and any(isinstance(t, ast.Attribute) and t.attr == cache_attr
                                              and A.dotted(t.value) == "self" for t in n.targets)
            for n in ast.walk(init_.node))
        class_level = [k for k in msg.class_assigns if cache_attr and k.lstrip("_") == cache_attr.lstrip("_")]
        if not per_instance or class_level:
            ctx.fail(cons + "#scope", msg.loc(), "the search cache is not created per message in "
                     "__init__ (a class-level dict is shared by all messages: a search on a freshly "
                     "decoded message returns another message's AVPs)")
