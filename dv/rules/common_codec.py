"""Rules shared by the codec properties C02 / C20."""
from __future__ import annotations

import ast

from ..report import Ctx
from .. import astutil as A

MUTABLE_CTORS = {"dict", "list", "set", "defaultdict", "collections.defaultdict", "OrderedDict",
                 "collections.OrderedDict", "deque", "collections.deque", "WeakValueDictionary",
                 "weakref.WeakValueDictionary", "WeakKeyDictionary"}


BENIGN_CTORS = {"TypeVar", "typing.TypeVar", "logging.getLogger", "getLogger", "struct.Struct", "Struct",
                "re.compile", "frozenset", "tuple", "object", "threading.Lock", "threading.RLock",
                "Lock", "RLock", "namedtuple", "collections.namedtuple", "NewType", "typing.NewType",
                "int", "str", "bytes", "float", "bool", "property", "staticmethod", "classmethod",
                "datetime.datetime", "datetime.timedelta", "datetime.date", "timedelta", "datetime",
                "MappingProxyType", "types.MappingProxyType", "range", "len", "max", "min", "sum",
                "datetime.datetime.fromtimestamp", "datetime.datetime.strptime", "int.from_bytes"}
BENIGN_DECORATORS = {"property", "staticmethod", "classmethod", "abstractmethod", "abc.abstractmethod",
                     "functools.wraps", "wraps", "contextmanager", "contextlib.contextmanager",
                     "overload", "typing.overload", "dataclass", "dataclasses.dataclass"}


def _stateful_value(val: ast.expr | None, mod) -> str | None:
    """Why the value of a module- or class-level binding is an object that can carry state from one
    call to the next (None: it cannot, or it is one of the stateless kinds)."""
    if val is None:
        return None
    if isinstance(val, (ast.Dict, ast.List, ast.Set, ast.DictComp, ast.ListComp, ast.SetComp)):
        return "mutable container"
    if isinstance(val, ast.Call):
        nm = A.call_name(val)
        if nm in MUTABLE_CTORS:
            return "mutable container"
        if nm in BENIGN_CTORS:
            return None
        if nm.split(".")[-1] == "local":
            return "thread-local storage"
        if nm in ("bytearray", "memoryview", "io.BytesIO", "BytesIO", "array.array"):
            return "mutable buffer"
        ci = mod.lookup_class(nm) if "." not in nm else None
        if ci is not None:
            model = mod.model
            names = {c.name for c in model.mro(ci)} | set(model.base_names(ci))
            if names & {"Exception", "BaseException", "Enum", "IntEnum", "Flag", "IntFlag", "NamedTuple"}:
                return None
            return f"instance of {ci.name}"
    return None


def _module_state(mod) -> dict:
    cache = mod.__dict__.get("_stateful_globals")
    if cache is not None:
        return cache
    out = {}
    for st in mod.tree.body:
        tg, val = None, None
        if isinstance(st, ast.Assign) and len(st.targets) == 1 and isinstance(st.targets[0], ast.Name):
            tg, val = st.targets[0].id, st.value
        elif isinstance(st, ast.AnnAssign) and isinstance(st.target, ast.Name) and st.value is not None:
            tg, val = st.target.id, st.value
        if tg is None:
            continue
        why = _stateful_value(val, mod)
        if why:
            out[tg] = (st, why)
    mod.__dict__["_stateful_globals"] = out
    return out


def _closure_state(deco_fn) -> list[str]:
    """Mutable locals of a decorator (factory) that the function it returns keeps reading: state
    that lives as long as the decorated function."""
    node = deco_fn.node
    stateful = {}
    for st in node.body:
        if isinstance(st, ast.Assign) and len(st.targets) == 1 and isinstance(st.targets[0], ast.Name):
            if _stateful_value(st.value, deco_fn.module):
                stateful[st.targets[0].id] = st
        elif isinstance(st, ast.AnnAssign) and isinstance(st.target, ast.Name):
            if _stateful_value(st.value, deco_fn.module):
                stateful[st.target.id] = st
    used = set()
    for inner in ast.walk(node):
        if inner is node or not isinstance(inner, (ast.FunctionDef, ast.Lambda, ast.AsyncFunctionDef)):
            continue
        for n in ast.walk(inner):
            if isinstance(n, ast.Name) and n.id in stateful:
                used.add(n.id)
            elif isinstance(n, ast.Nonlocal):
                used.update(n.names)
    return sorted(used)


def module_state_refs(func) -> list[tuple[str, ast.AST]]:
    """Objects that outlive a call which the function reads or writes: candidates for hidden state
    shared between calls.  Module-level mutable containers, buffers, thread-local storage and
    instances of repository classes (of the function's module or imported into it); state kept on
    the class object; closures of repository decorators; memoising decorators."""
    mod = func.module
    model = mod.model
    local = {a.arg for a in func.node.args.args + func.node.args.kwonlyargs}
    for n in A.walk_no_nested(func.node):
        if isinstance(n, ast.Name) and isinstance(n.ctx, ast.Store):
            local.add(n.id)
    glob_decl = {nm for n in A.walk_no_nested(func.node) if isinstance(n, ast.Global) for nm in n.names}
    local -= glob_decl
    out = []
    for n in A.walk_no_nested(func.node):
        if not isinstance(n, ast.Name) or n.id in local:
            continue
        if n.id in glob_decl and isinstance(n.ctx, ast.Store):
            out.append((n.id, n))
            continue
        b = mod.lookup(n.id)
        if b is None or b.kind != "assign":
            continue
        st = _module_state(b.module).get(b.name)
        if st is not None:
            out.append((n.id, n))
    # state kept on the class object: stores through cls / self.__class__ / type(self) / the class
    # name, and class-level stateful objects reached through self / cls
    ci = func.cls
    if ci is not None:
        mro = model.mro(ci)
        cls_names = {c.name for c in mro} | {"cls"}
        cls_mutable = {}
        for c in mro:
            for k, v in c.class_assigns.items():
                if _stateful_value(v, c.module):
                    cls_mutable.setdefault(k, c)

        def is_class_obj(e):
            d = ast.unparse(e).replace(" ", "")
            return d in cls_names or d in ("self.__class__", "type(self)")
        # an instance attribute of the same name (assigned through self in any method of the
        # class) shadows the class-level object
        shadowed = set()
        for c in mro:
            for m in c.all_funcs:
                for n in A.walk_no_nested(m.node):
                    if isinstance(n, ast.Attribute) and isinstance(n.ctx, ast.Store) \
                            and A.dotted(n.value) == "self" and n.attr in cls_mutable:
                        shadowed.add(n.attr)
        for n in A.walk_no_nested(func.node):
            if isinstance(n, ast.Attribute) and isinstance(n.ctx, ast.Store) and is_class_obj(n.value):
                out.append((f"class attribute {n.attr}", n))
            elif isinstance(n, ast.Call) and A.call_name(n) == "setattr" and n.args and is_class_obj(n.args[0]):
                out.append(("class attribute (setattr)", n))
            elif isinstance(n, ast.Attribute) and n.attr in cls_mutable and \
                    ((A.dotted(n.value) == "self" and n.attr not in shadowed) or is_class_obj(n.value)):
                out.append((f"class-level object {n.attr}", n))
    # decorators: memoising ones, and repository decorators whose closure keeps state
    for d in func.node.decorator_list:
        s = ast.unparse(d)
        base = s.split("(")[0]
        if base in BENIGN_DECORATORS or base.endswith((".setter", ".getter", ".deleter")):
            continue
        if any(k in s for k in ("lru_cache", "cache", "memo")):
            out.append((s, d))
            continue
        dn = d.func if isinstance(d, ast.Call) else d
        if isinstance(dn, ast.Name):
            b = mod.lookup(dn.id)
            if b is not None and b.kind == "func":
                g = b.module.funcs.get(b.node.name)
                if g is not None:
                    for v in _closure_state(g):
                        out.append((f"closure `{v}` of decorator {g.name}", d))
    return out


def hidden_state_refs(func, E=None, depth: int = 4) -> list[tuple]:
    """module_state_refs of *func* and of every repository function of the message package it
    calls (resolved callees, properties included), with the call chain."""
    if E is None:
        from ..effects import effects_of
        E = effects_of(func.module.model)
    out = []
    seen = set()
    todo = [(func, [])]
    while todo:
        g, chain = todo.pop(0)
        if id(g.node) in seen:
            continue
        seen.add(id(g.node))
        for r, n in module_state_refs(g):
            out.append((r, n, chain, g))
        if len(chain) >= depth:
            continue
        for h in E.callees(g):
            if ".message" in h.module.name or h.module is func.module:
                todo.append((h, chain + [g.qualname]))
        # a generator-based context manager runs on `with`: E.callees resolves the call
    return out


REGISTRIES = {"AVP_DICTIONARY", "AVP_VENDOR_DICTIONARY", "all_commands", "VENDORS"}


def _via(chain) -> str:
    return f" (reached through {' -> '.join(chain)})" if chain else ""


def no_hidden_state(ctx: Ctx, rule: str, funcs, allowed: set[str]):
    ctx.rule(rule, "the codec entry points keep no state between calls other than the "
                   "registries they are documented to consult", floor=len(funcs))
    for f in funcs:
        cons = f"{f.qualname}:module-state"
        refs = hidden_state_refs(f)
        ctx.use(f)
        ctx.inst(cons, sample=sorted({r for r, _, _, _ in refs}))
        bad = [x for x in refs if x[0] not in allowed and x[0] not in REGISTRIES]
        if bad:
            r, n, ch, g = bad[0]
            ctx.fail(cons, g.loc(n), f"{f.qualname} reads/writes the shared (module- or class-level) state `{r}`{_via(ch)}: its "
                     f"result depends on earlier calls (e.g. a class resolved once is returned for "
                     f"ever, although the request class or the command registry differs)")


def as_bytes_encodes_current(ctx: Ctx, rule: str):
    """Message.as_bytes encodes the AVPs the message holds *now*: every path to its return runs
    the loop `for avp in self.avps: avp.as_packed(...)`.  The AVP list, the containers of grouped
    AVPs and list attributes are handed out by reference and changed in place by the documented API
    (`msg.route_record.append(...)`, `msg.x[0].y = ...`), which no setter observes: bytes kept
    from an earlier encoding or from the wire cannot be known to be current."""
    from ..cfg import cfg_of
    from ..srcmodel import AnalysisError
    model = ctx.model
    msg = model.cls("message._base", "Message")
    f = msg.methods.get("as_bytes")
    if f is None:
        raise AnalysisError("Message.as_bytes not found")
    ctx.use(f)
    ctx.rule(rule, "Message.as_bytes encodes the current AVP list on every path (no bytes kept from "
                   "an earlier encoding or from the wire)", floor=1)
    cons = "Message.as_bytes:encodes-current-avps"
    ctx.inst(cons, rule=rule)
    g = cfg_of(f, inline=False)
    loops = [n for n in g.nodes if n.kind == "iter" and "avps" in ast.unparse(n.ast.iter)
             and any(m.has_call(lambda nm, c: nm.endswith("as_packed") or nm.endswith("as_bytes"))
                     for m in g.reach([d for l, d in n.succ if l == "iter"], blocked=[n]))]
    if not loops:
        # comprehension / join form
        loops = [n for n in g.nodes if n.kind == "stmt" and any(
            isinstance(x, (ast.ListComp, ast.GeneratorExp)) and "avps" in ast.unparse(x)
            and ("as_packed" in ast.unparse(x) or "as_bytes" in ast.unparse(x)) for x in n.walk())]
    if not loops:
        ctx.fail(cons, f.loc(), "Message.as_bytes does not encode `self.avps` member by member", rule=rule)
        return
    # ... and in the order of the list: what the loop walks is `self.avps` itself, not a sorted,
    # filtered, reversed or de-duplicated rendering of it
    cons2 = "Message.as_bytes:encodes-in-list-order"
    ctx.inst(cons2, rule=rule)
    for n in loops:
        its = [n.ast.iter] if n.kind == "iter" else [
            gen.iter for x in n.walk() if isinstance(x, (ast.ListComp, ast.GeneratorExp))
            for gen in x.generators if "avps" in ast.unparse(gen.iter)]
        for it in its:
            vals = [it]
            if isinstance(it, ast.Name):
                vals = [d.value for d in A.walk_no_nested(f.node)
                        if isinstance(d, (ast.Assign, ast.AnnAssign)) and d.value is not None
                        and any(isinstance(t, ast.Name) and t.id == it.id for t in A.store_targets(d))]
                vals += [d for d in A.walk_no_nested(f.node) if isinstance(d, ast.AugAssign)
                         and isinstance(d.target, ast.Name) and d.target.id == it.id]
                vals = vals or [it]
            for v in vals:
                if A.dotted(v) != "self.avps":
                    ctx.fail(cons2, f.loc(v), f"Message.as_bytes walks `{ast.unparse(v)[:70]}` instead of "
                             f"`self.avps`: the AVPs are written in another order (or another selection) than "
                             f"the list holds, so a decoded message is not re-encoded to the bytes it came "
                             f"from whenever the rendering is not the identity (e.g. a Session-Id that is not "
                             f"the first AVP)", rule=rule, expected="for avp in self.avps",
                             observed=ast.unparse(v)[:120])
    r = g.reach([g.entry], blocked=loops)
    if g.exit in r:
        ret = [n for n in r if n.kind == "stmt" and isinstance(n.ast, ast.Return)]
        ctx.fail(cons, g.loc(ret[0]) if ret else f.loc(),
                 "a path through Message.as_bytes returns without encoding `self.avps`: the bytes it "
                 "returns were produced earlier (kept from the wire or from a previous call) while "
                 "the message's lists and grouped containers can be changed in place without any "
                 "setter noticing - the changes never reach the wire and `msg.avps` disagrees with "
                 "`msg.as_bytes()`", rule=rule,
                 expected="every entry -> return path passes through the encode loop over self.avps",
                 observed="a path around the loop")


def no_shared_default_objects(ctx: Ctx, rule: str, funcs, what: str):
    """A default argument is evaluated once, when the `def` runs.  A default that is an object with
    state (a list / dict / set display, a Queue, a buffer, an instance of a repository class) and
    that the function keeps (stores in an attribute, returns) or changes (append / put / update
    ...) is one object shared by every call that leaves the argument out: every message built
    without an AVP list gets the same list, every connection created without a queue the same
    queue."""
    ctx.rule(rule, f"no function of {what} keeps or changes a default argument that is an object "
                   f"with state (it would be shared by all calls)", floor=20)
    MUT = ("append", "extend", "insert", "add", "update", "put", "put_nowait", "setdefault", "pop",
           "remove", "clear", "appendleft", "write", "discard")
    n = 0
    for f in funcs:
        a = f.node.args
        pos = a.posonlyargs + a.args
        pairs = list(zip(pos[len(pos) - len(a.defaults):], a.defaults)) + \
            [(k, d) for k, d in zip(a.kwonlyargs, a.kw_defaults) if d is not None]
        n += 1
        ctx.inst(f"{f.qualname}:defaults", rule=rule, nontrivial=bool(pairs))
        for arg, d in pairs:
            why = _stateful_value(d, f.module)
            if why is None and isinstance(d, ast.Call):
                nm = A.call_name(d)
                if nm.split(".")[-1] in ("Queue", "LifoQueue", "PriorityQueue", "SimpleQueue", "Event",
                                         "Condition", "Semaphore", "BytesIO", "StringIO"):
                    why = f"{nm}() object"
            if why is None:
                continue
            kept = None
            for x in A.walk_no_nested(f.node):
                if isinstance(x, (ast.Assign, ast.AnnAssign)) and getattr(x, "value", None) is not None:
                    v = x.value
                    srcs = [v] + ([v.values[-1], v.values[0]] if isinstance(v, ast.BoolOp) else []) + \
                        ([v.body, v.orelse] if isinstance(v, ast.IfExp) else [])
                    if any(isinstance(s_, ast.Name) and s_.id == arg.arg for s_ in srcs) and any(
                            isinstance(t, (ast.Attribute, ast.Subscript)) for t in A.store_targets(x)):
                        kept = (x, "stored in " + ast.unparse(A.store_targets(x)[0]))
                elif isinstance(x, ast.Return) and isinstance(x.value, ast.Name) and x.value.id == arg.arg:
                    kept = (x, "returned")
                elif isinstance(x, ast.Call) and isinstance(x.func, ast.Attribute) and x.func.attr in MUT \
                        and isinstance(x.func.value, ast.Name) and x.func.value.id == arg.arg:
                    kept = (x, f"changed in place (.{x.func.attr})")
                if kept:
                    break
            if kept:
                ctx.fail(f"{f.qualname}:default({arg.arg})", f.loc(kept[0]),
                         f"the default of `{arg.arg}` in {f.qualname} is `{ast.unparse(d)}` ({why}), "
                         f"evaluated once, and the function has it {kept[1]}: every call that leaves "
                         f"`{arg.arg}` out shares that one object (what one message / connection puts "
                         f"into it shows up in all the others)", rule=rule,
                         expected="None as the default and a fresh object per call",
                         observed=ast.unparse(d))
    return n
