"""Rules shared by the codec properties C02 / C20."""
from __future__ import annotations

import ast

from ..report import Ctx
from .. import astutil as A

MUTABLE_CTORS = {"dict", "list", "set", "defaultdict", "collections.defaultdict", "OrderedDict",
                 "collections.OrderedDict", "deque", "collections.deque", "WeakValueDictionary",
                 "weakref.WeakValueDictionary", "WeakKeyDictionary"}


def module_state_refs(func) -> list[tuple[str, ast.AST]]:
    """Module-level *mutable containers* (of the function's own module) the function reads or
    writes: candidates for hidden state shared between calls."""
    mod = func.module
    mutable = {}
    for st in mod.tree.body:
        tg, val = None, None
        if isinstance(st, ast.Assign) and len(st.targets) == 1 and isinstance(st.targets[0], ast.Name):
            tg, val = st.targets[0].id, st.value
        elif isinstance(st, ast.AnnAssign) and isinstance(st.target, ast.Name) and st.value is not None:
            tg, val = st.target.id, st.value
        if tg is None:
            continue
        if isinstance(val, (ast.Dict, ast.List, ast.Set, ast.DictComp, ast.ListComp, ast.SetComp)) or \
                (isinstance(val, ast.Call) and A.call_name(val) in MUTABLE_CTORS):
            mutable[tg] = st
    local = {a.arg for a in func.node.args.args + func.node.args.kwonlyargs}
    for n in A.walk_no_nested(func.node):
        if isinstance(n, ast.Name) and isinstance(n.ctx, ast.Store):
            local.add(n.id)
    out = []
    for n in A.walk_no_nested(func.node):
        if isinstance(n, ast.Name) and n.id in mutable and n.id not in local:
            out.append((n.id, n))
    # state kept on the class object: stores through cls / self.__class__ / type(self) / the class
    # name, and class-level mutable containers reached through self / cls
    ci = func.cls
    if ci is not None:
        model = mod.model
        mro = model.mro(ci)
        cls_names = {c.name for c in mro} | {"cls"}
        cls_mutable = {}
        for c in mro:
            for k, v in c.class_assigns.items():
                if isinstance(v, (ast.Dict, ast.List, ast.Set, ast.DictComp, ast.ListComp, ast.SetComp)) or \
                        (isinstance(v, ast.Call) and A.call_name(v) in MUTABLE_CTORS):
                    cls_mutable.setdefault(k, c)

        def is_class_obj(e):
            d = ast.unparse(e).replace(" ", "")
            return d in cls_names or d in ("self.__class__", "type(self)")
        for n in A.walk_no_nested(func.node):
            if isinstance(n, ast.Attribute) and isinstance(n.ctx, ast.Store) and is_class_obj(n.value):
                out.append((f"class attribute {n.attr}", n))
            elif isinstance(n, ast.Call) and A.call_name(n) == "setattr" and n.args and is_class_obj(n.args[0]):
                out.append(("class attribute (setattr)", n))
            elif isinstance(n, ast.Attribute) and n.attr in cls_mutable and \
                    (A.dotted(n.value) == "self" or is_class_obj(n.value)):
                out.append((f"class-level container {n.attr}", n))
    # decorators that memoise
    for d in func.node.decorator_list:
        s = ast.unparse(d)
        if any(k in s for k in ("lru_cache", "cache", "memo")):
            out.append((s, d))
    return out


def no_hidden_state(ctx: Ctx, rule: str, funcs, allowed: set[str]):
    ctx.rule(rule, "the codec entry points keep no state between calls other than the "
                   "registries they are documented to consult", floor=len(funcs))
    for f in funcs:
        cons = f"{f.qualname}:module-state"
        refs = module_state_refs(f)
        ctx.use(f)
        ctx.inst(cons, sample=sorted({r for r, _ in refs}))
        bad = [(r, n) for r, n in refs if r not in allowed]
        if bad:
            r, n = bad[0]
            ctx.fail(cons, f.loc(n), f"{f.qualname} reads/writes the shared (module- or class-level) state `{r}`: its "
                     f"result depends on earlier calls (e.g. a class resolved once is returned for "
                     f"ever, although the request class or the command registry differs)")
