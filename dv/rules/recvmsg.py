"""Model of Node._receive_message shared by C07, C08, C17 (and C06)."""
from __future__ import annotations

import ast

from ..srcmodel import AnalysisError
from ..cfg import cfg_of, Node
from ..atoms import Atomizer, must_facts
from ..effects import effects_of
from .. import astutil as A


class RecvModel:
    def __init__(self, ctx):
        model = ctx.model
        self.model = model
        self.nc = model.cls("node.node", "Node")
        f = self.nc.methods.get("_receive_message")
        if f is None:
            raise AnalysisError("Node._receive_message not found")
        ctx.use(f)
        self.f = f
        self.g = cfg_of(f, effects=effects_of(model))
        self.at = Atomizer(model, f.module, self.nc)
        args = [a.arg for a in f.node.args.args]
        self.conn, self.msg = args[1], args[2]
        self.consts = model.module("message.constants")
        self.is_req = f"{self.msg}.header.is_request"
        self.cmd = f"{self.msg}.header.command_code"
        g = self.g
        self.sends = [n for n in g.nodes if n.has_call("send_message")]
        self.answers = [n for n in g.nodes if n.kind == "stmt" and any(
            A.call_name(c) == "self._generate_answer" for c in n.calls())]
        self.handlers = [n for n in g.nodes if n.kind == "handler"]
        self.match_stmts = [x for x in ast.walk(f.node) if isinstance(x, ast.Match)]
        # dispatch calls  self.receive_xxx(conn, msg) / self._receive_app_*(conn, msg)
        self.dispatch = []
        for n in g.nodes:
            for c in n.calls():
                nm = A.call_name(c)
                if nm.startswith("self.") and (nm.split(".")[1].startswith("receive_")
                                               or nm.split(".")[1].startswith("_receive_app")):
                    self.dispatch.append((n, nm.split(".")[1], c))

    def facts(self, n: Node):
        return must_facts(self.g, self.at, n)

    def is_request_fact(self, facts, truth=True) -> bool:
        return (self.is_req, "truthy", None, truth) in facts

    def code(self, name: str):
        return self.model.fold_name(self.consts, name)

    def result_code_store(self, answer_var: str, before: Node):
        """constant stored into <answer_var>.result_code on the way to *before*."""
        for n in self.g.nodes:
            if n.kind == "stmt" and isinstance(n.ast, ast.Assign):
                for t in n.ast.targets:
                    if A.dotted(t) == f"{answer_var}.result_code" and self.g.dominated(before, [n]):
                        return self.model.try_fold(n.ast.value, self.f.module), n
        return None, None

    def answer_var_of_send(self, send: Node):
        for c in send.calls():
            if A.call_name(c).endswith("send_message") and len(c.args) >= 2:
                return A.dotted(c.args[0]), A.dotted(c.args[1])
        return None, None


def answer_sites(model):
    """Every call  self._generate_answer(conn, X)  /  X.to_answer()  in node.py with its function."""
    nc = model.cls("node.node", "Node")
    out = []
    for f in nc.all_funcs:
        for n in A.walk_no_nested(f.node):
            if isinstance(n, ast.Call) and A.call_name(n) == "self._generate_answer":
                out.append((f, n))
    return out


def received_messages_reach_dispatch(ctx, rule: str, answers: bool = True, requests: bool = True):
    """Node._receive_message: what happens to a received message before the dispatch by command.

    answers:  no path leaves the function before the dispatch for a message that is not a request.
              The handlers behind the dispatch (receive_cea / receive_dwa / receive_dpa /
              _receive_app_answer) are where a CEA completes or ends the handshake, a DWA returns
              the connection to ready, a DPA lets the connection close, a blocked sender gets its
              answer: an answer filtered out earlier (by a validation, by a side channel for error
              answers) makes the node wait for a message it has already received.
    requests: a path that leaves before the dispatch for a request has sent an answer (the
              duplicate rejection, the 5005): a request is never dropped silently.
    """
    R = RecvModel(ctx)
    g = R.g
    ctx.rule(rule, "every received message reaches the dispatch by command of _receive_message; "
                   "only requests leave earlier, and only answered", floor=int(answers) + int(requests))
    if not R.match_stmts or not R.dispatch:
        raise AnalysisError("_receive_message: dispatch not found")
    m = R.match_stmts[0]
    inside = {id(x) for x in ast.walk(m) if isinstance(x, (ast.stmt, ast.expr, ast.match_case, ast.pattern))}
    subj = [n for n in g.nodes if n.ast is not None and any(
        id(x) in inside for x in ast.walk(n.ast) if isinstance(x, (ast.stmt, ast.expr, ast.match_case, ast.pattern)))]
    if not subj:
        raise AnalysisError("_receive_message: no CFG node of the dispatch statement")
    pre = g.reach([g.entry], blocked=subj)
    rets = [n for n in pre if n.kind == "stmt" and isinstance(n.ast, ast.Return)]
    for kind, on in (("answer", answers), ("request", requests)):
        if on:
            ctx.inst(f"_receive_message:{kind}-reaches-dispatch", rule=rule,
                     sample=[g.loc(n) for n in rets])
    for n in rets:
        facts = R.facts(n)
        is_req = R.is_request_fact(facts, True)
        # an exit that depends on the state of the connection or of the node only (closed,
        # stopping) treats every message alike and is not a filter on what was received
        import re as _re
        about_msg = [a for a in facts if _re.search(rf"\b{_re.escape(R.msg)}\b", str(a[0]) + " " + str(a[2]))]
        if facts and not about_msg:
            continue
        if answers and not is_req:
            ctx.fail("_receive_message:answer-reaches-dispatch", g.loc(n),
                     f"`return` before the dispatch on a path that a received answer can take "
                     f"(guards: {sorted(map(str, facts))[:4]}): the CEA / DWA / DPA / application "
                     f"answer is consumed without its handler - the handshake never completes or "
                     f"fails, the watchdog state is not reset, the disconnect waits for its time-out, "
                     f"the sender of the request waits for ever", rule=rule,
                     expected="every exit before the dispatch is guarded by msg.header.is_request",
                     observed="an exit an answer can reach")
        if requests and (is_req or not answers):
            if not g.dominated(n, R.sends):
                ctx.fail("_receive_message:request-reaches-dispatch", g.loc(n),
                         f"`return` before the dispatch on a path of a received request on which "
                         f"nothing has been sent: the request is neither handed on nor answered",
                         rule=rule, expected="an answer sent (send_message) before leaving",
                         observed="a silent exit")
