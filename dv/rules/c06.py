"""C06 - capabilities exchange gates all traffic and yields the specified outcome."""
from __future__ import annotations

import ast

from ..report import Ctx
from ..srcmodel import AnalysisError
from ..cfg import cfg_of
from ..atoms import (Atomizer, AtomTracker, AssumeTracker, ComboTracker, must_facts,
                     guarded_any)
from ..lockset import call_sites, method_refs
from .. import astutil as A
from .timers import TimerTable
from .common_node import ready_constants, ready_state_stores

TECHNIQUE = "typestate gate table (abstract evaluation of the dispatch gate per state) + outcome " \
            "table of receive_cer/receive_cea from CFG must-facts + timer decision table"
EXPLANATION = (
    "The gate in PeerConnection.__dispatch_message is evaluated abstractly for each of the "
    "seven connection states and both directions: in PEER_CONNECTED only a capabilities-"
    "exchange message of the expected direction reaches the single message_handler call, in "
    "CLOSING/CLOSED nothing does. For receive_cer the conditions on every path to each result "
    "code (3010 unknown peer, election lost, 5010 no common application, 2001) are extracted "
    "and compared with the specification, together with the state stored, the ready flag, the "
    "identity attributes of the CEA and the single send; receive_cea flags ready only on 2001 "
    "and closes otherwise; an outbound connection sends its CER on every edge that makes it "
    "CONNECTED; the CER/CEA time-outs in _check_timers use the timeout of the matching "
    "direction; a connection enters a ready state only through guarded stores and routing "
    "filters on the ready states.")
ASSUMPTIONS = [
    "not decided: event orderings, timing of the time-out, behaviour after a second CER on one connection",
    "set intersection semantics of Python sets",
]


def run(ctx: Ctx):
    model = ctx.model
    from .common_node import names_resolve
    names_resolve(ctx, "C06-RN")
    from . import c18 as _c18
    ctx.include(_c18.run, {"C18-R3"}, "C06-R8",
                "a message counts as queued from add_out_msg until the writer has appended it: the "
                "3010 CEA of an unknown peer is handed to the transport before the CLOSING connection "
                "is closed", floor=1,
                constructs=lambda c: c.startswith(("PeerConnection.has_queued_messages", "work_write_queue:task_done")))
    from . import c11 as _c11
    ctx.include(_c11.run, {"C11-R5"}, "C06-R5d",
                "the timer pass of the I/O loop covers every connection it does not close (the "
                "CER / CEA deadline is checked there)", floor=1,
                constructs=lambda c: c.startswith("_handle_connections:timer-pass"))
    from .recvmsg import received_messages_reach_dispatch
    received_messages_reach_dispatch(ctx, "C06-R7d", answers=True, requests=False)
    peer_mod = model.module("node.peer")
    consts = model.module("message.constants")
    P = lambda n: model.fold_name(peer_mod, n)
    K = lambda n: model.fold_name(consts, n)
    pc = model.cls("node.peer", "PeerConnection")
    nc = model.cls("node.node", "Node")
    CE = K("CMD_CAPABILITIES_EXCHANGE")

    # ---------------- R1 gate table ------------------------------------------------------
    ctx.rule("C06-R1", "gate table of __dispatch_message per state and direction", floor=9)
    f = pc.methods.get("__dispatch_message")
    if f is None:
        raise AnalysisError("PeerConnection.__dispatch_message not found")
    ctx.use(f)
    g = cfg_of(f)
    at = Atomizer(model, f.module, pc)
    m = [a.arg for a in f.node.args.args][1]
    H = [n for n in g.nodes if n.kind == "stmt" and any(A.call_name(c) == "self.message_handler" for c in n.calls())]
    if len(H) != 1:
        raise AnalysisError(f"expected one message_handler call in __dispatch_message, found {len(H)}")
    H = H[0]
    hc = [c for c in H.calls() if A.call_name(c) == "self.message_handler"][0]
    if [A.dotted(a) for a in hc.args] != ["self", m]:
        ctx.inst("__dispatch_message:handler-args")
        ctx.fail("__dispatch_message:handler-args", g.loc(H), "the handler is not called with (connection, message)")
    isreq, cmd = f"{m}.header.is_request", f"{m}.header.command_code"
    states = ["PEER_CONNECTING", "PEER_CONNECTED", "PEER_READY", "PEER_READY_WAITING_DWA",
              "PEER_DISCONNECTING", "PEER_CLOSING", "PEER_CLOSED"]
    table = {}
    for sname in states:
        for direction in ("receiver", "sender"):
            assume = AssumeTracker(at, {"self.state": P(sname),
                                        "self.is_receiver": direction == "receiver",
                                        "self.is_sender": direction == "sender"})
            tr = ComboTracker(assume, AtomTracker(at, {isreq, cmd}))
            reach = H in g.reach([g.entry], tracker=tr)
            facts = must_facts(g, at, H, tracker=tr) if reach else set()
            if not reach:
                outcome = "none"
            elif (cmd, "==", CE, True) in facts:
                outcome = "CE-request" if (isreq, "truthy", None, True) in facts else \
                    "CE-answer" if (isreq, "truthy", None, False) in facts else "CE-any"
            else:
                restr = sorted(str((f_[1], f_[2] if not isinstance(f_[2], frozenset) else sorted(f_[2]), f_[3]))
                               for f_ in facts if f_[0] in (isreq, cmd))
                outcome = "all" if not restr else "restricted:" + ";".join(restr)
            table[(sname, direction)] = outcome
    ctx.note(f"gate table: { {f'{s}/{d}': o for (s, d), o in table.items()} }")
    expect = {("PEER_CONNECTED", "receiver"): "CE-request", ("PEER_CONNECTED", "sender"): "CE-answer",
              ("PEER_CLOSING", "receiver"): "none", ("PEER_CLOSING", "sender"): "none",
              ("PEER_CLOSED", "receiver"): "none", ("PEER_CLOSED", "sender"): "none",
              # before its own CER has been sent (socket still connecting) nothing is processed
              ("PEER_CONNECTING", "receiver"): "none", ("PEER_CONNECTING", "sender"): "none"}
    for s in ("PEER_READY", "PEER_READY_WAITING_DWA", "PEER_DISCONNECTING"):
        expect[(s, "receiver")] = expect[(s, "sender")] = "all"
    for key, want in expect.items():
        cons = f"__dispatch_message:gate({key[0]},{key[1]})"
        ctx.inst(cons, sample={"state": key[0], "direction": key[1], "outcome": table[key]})
        if table[key] != want:
            why = {
                "none": ("a connection whose socket is still connecting (own CER not yet sent) hands "
                         "received messages to the node: a DWR is answered / a request delivered "
                         "before the capabilities exchange has started") if key[0] == "PEER_CONNECTING"
                else "a connection that is closing still hands received messages to the node "
                     "(a request pipelined behind a rejected CER reaches an application)",
                "all": "messages are not processed in this state (e.g. the DPA after our DPR is dropped)",
            }.get(want, "before its capabilities exchange has succeeded the connection processes "
                        "messages other than a capabilities-exchange message of the expected direction")
            ctx.fail(cons, g.loc(H), f"in {key[0]} ({key[1]}) the gate lets through `{table[key]}`, "
                     f"expected `{want}`: {why}")
    # single dispatch site
    cons = "PeerConnection:single-dispatch-site"
    ctx.inst(cons)
    sites = []
    for fn in pc.all_funcs:
        for n in A.walk_no_nested(fn.node):
            if isinstance(n, ast.Call) and A.call_name(n) == "self.message_handler":
                sites.append(fn.qualname)
    callers = [c.func.qualname for c in call_sites(model, "__dispatch_message")]
    if sites != [f.qualname] or callers != ["PeerConnection.work_read_queue"]:
        ctx.fail(cons, pc.loc(), f"messages reach the node through {sites} / gate called from "
                 f"{callers}: a path around the gate exists")
    refs = [r for r in method_refs(model, "message_handler") if r.func.cls is not pc]
    stores = []
    for fn in model.all_funcs():
        for n in A.walk_no_nested(fn.node):
            if isinstance(n, ast.Assign):
                for t in n.targets:
                    if isinstance(t, ast.Attribute) and t.attr == "message_handler":
                        stores.append((fn, n))
    cons = "message_handler:binding"
    ctx.inst(cons)
    ext = [(fn, n) for fn, n in stores if fn.cls is not pc]
    if len(ext) != 1 or A.dotted(ext[0][1].value) != "self._receive_message":
        ctx.fail(cons, ext[0][0].loc(ext[0][1]) if ext else pc.loc(),
                 "message_handler is not bound exactly once to Node._receive_message")

    # ---------------- R3 outcome table of receive_cer ---------------------------------------
    _receive_cer(ctx, model, nc, P, K)

    # ---------------- R4 receive_cea ------------------------------------------------------------
    ctx.rule("C06-R4", "receive_cea: ready only on 2001; any other result closes with CER_REJECTED", floor=2)
    f = nc.methods.get("receive_cea")
    if f is None:
        raise AnalysisError("Node.receive_cea not found")
    ctx.use(f)
    g = cfg_of(f)
    at = Atomizer(model, f.module, nc)
    conn, msg = [a.arg for a in f.node.args.args][1:3]
    flags = [n for n in g.nodes if n.has_call("_flag_connection_as_ready")]
    closes = [n for n in g.nodes if n.kind == "stmt" and any(
        A.call_name(c) == "self.close_connection_socket" for c in n.calls())]
    cons = "receive_cea:ready-on-2001"
    ctx.inst(cons)
    if len(flags) != 1 or (f"{msg}.result_code", "==", 2001, True) not in must_facts(g, at, flags[0]):
        ctx.fail(cons, f.loc(), "an outbound connection becomes ready without the CEA's Result-Code "
                 "being 2001")
    cons = "receive_cea:reject-closes"
    ctx.inst(cons)
    okc = False
    for n in closes:
        c = [c for c in n.calls() if A.call_name(c) == "self.close_connection_socket"][0]
        facts = must_facts(g, at, n)
        if (f"{msg}.result_code", "==", 2001, False) in facts and A.dotted(c.args[0]) == conn \
                and model.try_fold(c.args[1] if len(c.args) > 1 else c.keywords[0].value, f.module) \
                == P("DISCONNECT_REASON_CER_REJECTED"):
            okc = True
            after = g.reach([n], include_starts=False)
            if any(x in after for x in flags):
                ctx.fail(cons, g.loc(n), "a rejected capabilities exchange still makes the connection ready")
    if not okc:
        ctx.fail(cons, f.loc(), "a CEA with a result other than 2001 does not close the connection "
                 "with DISCONNECT_REASON_CER_REJECTED")
    # ... and nothing else does: a close is reached only with a result other than 2001 or with a
    # CEA that names nobody (no usable Origin-Host).  Any further condition (on the negotiated
    # applications, the vendor, the addresses) closes a connection whose exchange has succeeded -
    # e.g. the one to a relay agent, whose 2001 CEA advertises only the Relay application
    cons = "receive_cea:2001-is-accepted"
    ctx.inst(cons)
    for n in closes:
        facts = must_facts(g, at, n)
        rejected = (f"{msg}.result_code", "==", 2001, False) in facts
        nameless = any(str(x[0]).replace(" ", "").startswith(f"isinstance({msg}.origin_host,") and x[3] is False
                       for x in facts) or any(x[0] == f"{msg}.origin_host" and (
                           (x[1] == "is" and x[2] is None and x[3] is True) or (x[1] == "truthy" and x[3] is False))
                           for x in facts)
        if not rejected and not nameless:
            extra = sorted(str(x) for x in facts if x[0] not in (f"{conn}.state",))
            ctx.fail(cons, g.loc(n), f"receive_cea closes the connection although the CEA's Result-Code is 2001 "
                     f"and it names its Origin-Host (conditions on this path: {extra[:4]}): an outbound "
                     f"connection whose capabilities exchange succeeded does not become ready - a persistent "
                     f"peer is dialled and closed again on every reconnect cycle",
                     expected="close only under result_code != 2001 or an unusable Origin-Host",
                     observed=str(extra)[:200])
    # (for a connection whose exchange is pending; in any other state the CEA is ignored)
    pending = g.guard_edges(lambda t: at.label_when(
        t, lambda a: False if (a.subject == f"{conn}.state" and a.op == "=="
                               and a.value == P("PEER_CONNECTED")) else None))
    r = g.reach([g.entry], blocked=flags + closes, blocked_edges=pending)
    if g.exit in r:
        ctx.fail(cons + "#fallthrough", f.loc(), "receive_cea can return without either making the "
                 "connection ready or closing it")
    hi = [n for n in g.nodes if n.kind == "stmt" and any(A.dotted(t) == f"{conn}.host_identity" for t in n.stores())]
    ctx.inst("receive_cea:host-identity")
    def _is_decoded_origin(e):
        # <msg>.origin_host.decode(<whatever error mode>), possibly case-folded
        x = e
        while isinstance(x, ast.Call) and isinstance(x.func, ast.Attribute) \
                and x.func.attr in ("decode", "lower", "casefold", "strip"):
            x = x.func.value
        return A.dotted(x) == f"{msg}.origin_host" and "decode" in ast.unparse(e)
    if not hi or not all(g.dominated(x, hi) for x in flags) or not _is_decoded_origin(hi[0].ast.value):
        ctx.fail("receive_cea:host-identity", f.loc(), "the peer's identity (Origin-Host of the CEA) "
                 "is not recorded before the connection becomes ready")

    # ---------------- R9 the exchange is decided, not abandoned --------------------------------------
    # A CER / CEA that lacks an AVP or carries bytes that are not text must end in one of the
    # specified outcomes.  An AttributeError (None where the AVP is absent), UnicodeDecodeError
    # (strict decode of a received name), TypeError or KeyError raised by the handler is caught by
    # the dispatcher's catch-all: the peer gets a 5012 without the node's capabilities - or
    # nothing, for a CEA - and the connection stays CONNECTED until the time-out.
    from ..effects import effects_of as _eff
    E_ = _eff(model)
    ctx.rule("C06-R9", "receive_cer / receive_cea raise nothing that depends on what the peer sent "
                       "(absent AVPs, names that are not valid text)", floor=2)
    for hn in ("receive_cer", "receive_cea"):
        hf = nc.methods.get(hn)
        cons = f"{hn}:decided-for-any-content"
        ctx.inst(cons, rule="C06-R9")
        if hf is None:
            continue
        ctx.use(hf)
        bad = sorted(set(E_.raises(hf)) & {"AttributeError", "UnicodeDecodeError", "TypeError", "KeyError",
                                          "IndexError"})
        for e in bad:
            chain = E_.why(hf, e)
            ctx.fail(f"{hn}:{e}", chain[-1].split(": ")[0] if chain else hf.loc(),
                     f"{hn} can raise {e} on what the peer sent ({chain[-1].split(': ', 1)[-1] if chain else ''}): "
                     f"the capabilities exchange is abandoned half-way - no specified outcome, the "
                     f"connection stays CONNECTED until the CER/CEA time-out", rule="C06-R9", steps=chain)

    # ---------------- R5 CER first, time-outs -----------------------------------------------------
    ctx.rule("C06-R5", "an outbound connection sends its CER on every edge that makes it CONNECTED; "
                       "CEA/CER time-outs close with FAILED_CONNECT_CE using the matching timeout", floor=4)
    # ---------------- R5e the per-peer CER time-out ----------------------------------------------------
    ctx.cur("C06-R5")
    cons_ct = "_check_timers:cer-timeout#per-peer-before-cer"
    ctx.inst(cons_ct, rule="C06-R5")
    ct_ = nc.methods.get("_check_timers")
    fp_ = nc.methods.get("_find_connection_peer")
    if ct_ is not None and fp_ is not None and not any(
            k in ast.unparse(ct_.node) + ast.unparse(fp_.node) for k in ("ip_addresses", ".ip ", ".ip)", "conn.ip")):
        ctx.fail(cons_ct, ct_.loc(), "the peer whose cer_timeout applies is found through the name the connection "
                 "took from its CER: while an accepted connection is still waiting for that CER no peer is "
                 "found and the node-level cer_timeout is used - Peer.cer_timeout ('timeout waiting for a CER "
                 "after receiving a connection attempt') never applies to the wait it is documented for "
                 "(findings/audit3/C06-3, C11-3)", rule="C06-R5")

    CONNECTED = P("PEER_CONNECTED")
    for fn_name in ("_connect_to_peer", "_handle_connections"):
        fn = nc.methods.get(fn_name)
        if fn is None:
            ctx.error(f"Node.{fn_name} not found")
            continue
        ctx.use(fn)
        gg = cfg_of(fn)
        att = Atomizer(model, fn.module, nc)
        marks = []
        for n in gg.nodes:
            if n.kind != "stmt":
                continue
            for t in n.stores():
                if isinstance(t, ast.Attribute) and t.attr == "state" \
                        and model.try_fold(n.ast.value, fn.module) == CONNECTED:
                    marks.append((n, ast.unparse(t.value)))
            for c in n.calls():
                if A.call_name(c) == "self._flag_peer_as_connected":
                    marks.append((n, ast.unparse(c.args[0])))
        for n, cv in marks:
            # direction: the connection object was created with PEER_SEND?
            defs = [x for x in gg.nodes if x.kind in ("stmt", "iter") and any(
                A.dotted(t) == cv for t in x.stores())]
            reaching = [d for d in defs if n in gg.reach(
                [y for l, y in d.succ if l != "exc"], blocked=[x for x in defs if x is not d])]
            is_recv = bool(reaching) and all(
                d.kind == "stmt" and isinstance(getattr(d.ast, "value", None), ast.Call)
                and A.call_name(d.ast.value) == "PeerConnection"
                and "PEER_RECV" in ast.unparse(d.ast.value) for d in reaching)
            cons = f"Node.{fn_name}:cer-after-connected({cv})@{'accept' if is_recv else 'dial'}"
            ctx.inst(cons, sample={"where": gg.loc(n)})
            if is_recv:
                continue
            cers = [x for x in gg.nodes if any(A.call_name(c) == "self.send_cer" and
                                               [A.dotted(a) for a in c.args] == [cv] for c in x.calls())]
            tr = AtomTracker(att, {f"{cv}.state"})
            stops = [x for x in gg.nodes if x.kind in ("iter", "loop")] + [gg.exit]
            after = gg.reach([d for l, d in n.succ if l != "exc"], normal_blocked=cers,
                             tracker=tr, start_state=frozenset({(f"{cv}.state", "==", CONNECTED, True)}))
            if any(s_ in after for s_ in stops):
                ctx.fail(cons, gg.loc(n), f"`{n.text(60)}` makes an outbound connection CONNECTED "
                         f"but a path leaves without send_cer({cv}): the peer never gets our CER and "
                         f"the connection idles until the CEA time-out")
    T = TimerTable(ctx)
    FAILED_CE = P("DISCONNECT_REASON_FAILED_CONNECT_CE")
    closes = [(n, c) for n, k, c in T.actions if k == "close" and T.reason(c) == FAILED_CE]
    cons = "_check_timers:ce-timeouts"
    ctx.inst(cons, sample=[T.g.loc(n) for n, _ in closes])
    seen = set()
    for n, c in closes:
        facts = T.facts(n)
        if (f"{T.conn}.state", "==", CONNECTED, True) not in facts:
            ctx.fail(cons, T.g.loc(n), "a capabilities-exchange time-out close is not restricted to PEER_CONNECTED")
            continue
        # which elapsed-time property is compared, and is its clock ever restarted?
        el = [f_[0].split(".", 1)[1] for f_ in facts if f_[1] == ">" and f_[3]
              and f_[0].startswith(f"{T.conn}.") and T.cfg_of_local(str(f_[2])) is not None]
        elapsed = el[0] if el else "last_read_since"
        cfgt = T.timeout_fact(facts, elapsed)
        pcx = model.cls("node.peer", "PeerConnection")
        pf = pcx.methods.get(elapsed)
        clock = None
        if pf is not None:
            for r_ in ast.walk(pf.node):
                if isinstance(r_, ast.Return) and isinstance(r_.value, ast.BinOp) and isinstance(r_.value.op, ast.Sub) \
                        and isinstance(r_.value.right, ast.Attribute) and A.dotted(r_.value.right.value) == "self":
                    clock = r_.value.right.attr
        resets = []
        if clock:
            for fn_ in pcx.all_funcs:
                if fn_.name == "__init__":
                    continue
                for x in A.walk_no_nested(fn_.node):
                    if isinstance(x, (ast.Assign, ast.AugAssign)) and any(
                            isinstance(t, ast.Attribute) and t.attr == clock and A.dotted(t.value) == "self"
                            for t in A.store_targets(x)):
                        resets.append(fn_.qualname)
        # only restarts that happen because something was received defeat the deadline; a restart
        # at the moment the transport comes up (outgoing socket connected) is the start of the wait
        if resets:
            from ..effects import effects_of as _eo2
            from ..lockset import call_sites as _cs
            E2 = _eo2(model)
            rd = pcx.methods.get("work_read_queue")
            read_path = {id(h.node) for h in (E2.reachable_funcs([rd]) if rd is not None else [])}
            if rd is not None:
                read_path.add(id(rd.node))
            resets = [q for q in resets if any(id(c.func.node) in read_path
                                               for c in _cs(model, q.split(".")[-1]))]
        ctx.inst(cons + "#clock", sample={"elapsed": elapsed, "clock": clock, "restarted_by": resets})
        if clock is None or resets:
            ctx.fail(cons + "#clock", T.g.loc(n), f"the handshake time-out is measured with "
                     f"`{T.conn}.{elapsed}`, whose clock `{clock}` is restarted by {sorted(set(resets))} "
                     f"(i.e. by any received bytes): a peer that keeps sending anything but its "
                     f"CER/CEA - an ignored DWR, a single byte - is never timed out")
        direction = "sender" if (f"{T.conn}.is_sender", "truthy", None, True) in facts else \
            "receiver" if (f"{T.conn}.is_receiver", "truthy", None, True) in facts else None
        want = {"sender": "cea_timeout", "receiver": "cer_timeout"}.get(direction)
        if direction is None or cfgt is None or cfgt.get("node") != want:
            ctx.fail(cons, T.g.loc(n), f"for a {direction or 'connection of undecided direction'} the "
                     f"handshake time-out compares with {cfgt.get('node') if cfgt else 'nothing'} "
                     f"instead of {want}: an outbound connection waits for its CEA with the CER "
                     f"timeout / an inbound one is closed before its CER timeout")
        else:
            seen.add(direction)
        if ("self._stopping", "truthy", None, False) not in facts:
            ctx.fail(cons + "#stopping", T.g.loc(n), "time-out closes run while stopping")
    if seen != {"sender", "receiver"} and len(closes) >= 0:
        ctx.fail(cons + "#missing", T.f.loc(), f"handshake time-outs exist only for {sorted(seen)}: a "
                 f"connection whose expected CER/CEA never arrives is never closed")
    T.check_overrides(ctx, ["cea_timeout", "cer_timeout"], "C06-R5")
    # the CER/CEA time-outs are enforced by the timer pass: it runs in every round of the loop
    from .common_node import io_loop_every_round
    io_loop_every_round(ctx, "C06-R5b", want=("timers",))
    from .common_node import clock_agreement
    clock_agreement(ctx, "C06-R5c", {("node.peer", "PeerConnection", "_created"): ["lifetime"]})

    # ---------------- R6 routing only when ready ----------------------------------------------------
    ready_state_stores(ctx, "C06-R6")
    ready_constants(ctx, "C06-R6b")
    from . import c10
    ctx.include(c10.run, {"C10-R1", "C10-R2"}, "C06-R6c",
                "requests are routed only to connections in a ready state (filter and selection "
                "callback of route_request)", floor=4,
                constructs=lambda c: "typed-avp-list" not in c)   # (a recorded finding of C10)


def _receive_cer(ctx: Ctx, model, nc, P, K):
    ctx.rule("C06-R3", "outcome table of receive_cer (3010 / election lost / 5010 / 2001), CEA "
                       "identity, one send per path", floor=8)
    f = nc.methods.get("receive_cer")
    if f is None:
        raise AnalysisError("Node.receive_cer not found")
    ctx.use(f)
    g = cfg_of(f)
    at = Atomizer(model, f.module, nc)
    conn, msg = [a.arg for a in f.node.args.args][1:3]
    sends = [n for n in g.nodes if n.has_call("send_message")]
    flags = [n for n in g.nodes if n.has_call("_flag_connection_as_ready")]
    assigns = [n for n in g.nodes if n.has_call("_assign_peer_connection")]
    ans_def = [n for n in g.nodes if n.kind == "stmt" and isinstance(getattr(n.ast, "value", None), ast.Call)
               and A.call_name(n.ast.value) == "self._generate_answer"]
    if len(ans_def) != 1:
        raise AnalysisError("receive_cer does not build exactly one answer")
    av = A.dotted(A.store_targets(ans_def[0].ast)[0])
    # one send per path
    cons = "receive_cer:one-answer-per-path"
    ctx.inst(cons)
    # (in every state: a CER repeated on an established connection is answered as well - only
    # the completion of the handshake is restricted to PEER_CONNECTED)
    if g.exit in g.reach([g.entry], normal_blocked=sends):
        ctx.fail(cons, f.loc(), "receive_cer can return without answering the CER (a request "
                 "that is silently ignored also leaves its origin record behind until the "
                 "connection closes)")
    for s in sends:
        if any(t in g.reach([s], include_starts=False) for t in sends):
            ctx.fail(cons, g.loc(s), "two CEAs can be sent for one CER")
        c = [c for c in s.calls() if A.call_name(c).endswith("send_message")][0]
        if [A.dotted(a) for a in c.args] != [conn, av]:
            ctx.fail(cons + "#args", g.loc(s), "the CEA is not sent on the connection the CER came from")
    # identity attributes on all paths before any send
    want = {"host_ip_address": "self.ip_addresses", "vendor_id": "self.vendor_id",
            "product_name": "self.product_name", "auth_application_id": "self.auth_application_ids",
            "acct_application_id": "self.acct_application_ids"}
    for attr, src in want.items():
        cons = f"receive_cer:cea.{attr}"
        ctx.inst(cons)
        st = [n for n in g.nodes if n.kind == "stmt" and any(A.dotted(t) == f"{av}.{attr}" for t in n.stores())]
        if not st or not all(g.dominated(s, st) for s in sends):
            ctx.fail(cons, f.loc(), f"the CEA does not carry {attr} on every path")
        elif src not in ast.unparse(st[0].ast.value):
            ctx.fail(cons, g.loc(st[0]), f"CEA.{attr} is not the node's own {src}")
    # origin host variable
    od = [n for n in g.nodes if n.kind == "stmt" and isinstance(n.ast, ast.Assign)
          and f"{msg}.origin_host" in ast.unparse(n.ast.value)]
    origin = A.dotted(od[0].ast.targets[0]) if od else None
    # result-code stores
    rcs = {}
    for n in g.nodes:
        if n.kind == "stmt" and isinstance(n.ast, ast.Assign) and any(
                A.dotted(t) == f"{av}.result_code" for t in n.ast.targets):
            rcs.setdefault(model.try_fold(n.ast.value, f.module), []).append(n)
    CLOSING = P("PEER_CLOSING")
    UNKNOWN, NOCOMMON, SUCCESS = K("E_RESULT_CODE_DIAMETER_UNKNOWN_PEER"), \
        K("E_RESULT_CODE_DIAMETER_NO_COMMON_APPLICATION"), K("E_RESULT_CODE_DIAMETER_SUCCESS")
    ELECT = K("E_RESULT_CODE_DIAMETER_ELECTION_LOST")

    def state_stores_before(n):
        return [x for x in g.nodes if x.kind == "stmt" and any(A.dotted(t) == f"{conn}.state" for t in x.stores())
                and (g.can_reach(x, n) or g.can_reach(n, x))]

    def send_after(n):
        return [s for s in sends if g.can_reach(n, s)]
    # 3010
    cons = "receive_cer:unknown-peer"
    ctx.inst(cons)
    n3010 = rcs.get(UNKNOWN, [])
    if len(n3010) != 1:
        ctx.fail(cons, f.loc(), "a CER from an unknown peer is not answered 3010")
    else:
        n = n3010[0]
        facts = must_facts(g, at, n)
        if (origin, "in-expr", "self.peers", False) not in facts:
            ctx.fail(cons, g.loc(n), "3010 is not conditioned on the CER's Origin-Host being unknown "
                     "(`origin not in self.peers`)")
        ss = send_after(n)
        cl = [x for x in g.nodes if x.kind == "stmt" and any(A.dotted(t) == f"{conn}.state" for t in x.stores())
              and model.try_fold(x.ast.value, f.module) == CLOSING]
        # "3010 followed by closing": after the CEA has been queued the connection is put into
        # PEER_CLOSING and the node is woken, on every path to the return.  (CLOSING stored
        # before the CEA is queued lets the I/O loop close the still empty connection first.)
        wake = [x for x in g.nodes if x.kind == "stmt" and any(
            A.call_name(c) == f"{conn}.demand_attention" for c in x.calls())]
        okc = bool(ss)
        if okc:
            after_send = [d for l, d in ss[0].succ if l not in ("exc", "raise")]
            cl_after = [x for x in cl if x in g.reach(after_send)]
            okc = bool(cl_after) and g.exit not in g.reach(after_send, normal_blocked=cl_after) \
                and g.exit not in g.reach([d for x in cl_after for l, d in x.succ if l not in ("exc", "raise")],
                                          normal_blocked=wake)
        if not okc:
            ctx.fail(cons + "#closing", g.loc(n), "the 3010 answer is not followed by closing: after the "
                     "CEA has been queued the connection is not put into PEER_CLOSING and the node "
                     "woken (demand_attention) on every path")
        early = [x for x in cl if ss and g.can_reach(x, ss[0]) and
                 must_facts(g, at, x) >= {(origin, "in-expr", "self.peers", False)}]
        ctx.inst(cons + "#closing-after-queueing")
        if early:
            ctx.fail(cons + "#closing-after-queueing", g.loc(early[0]), "the connection is put into "
                     "PEER_CLOSING before the 3010 CEA is queued: the I/O loop closes a CLOSING "
                     "connection that has nothing queued or buffered, so the CEA can be lost")
        if any(fl in g.reach([n], include_starts=False) for fl in flags + assigns):
            ctx.fail(cons + "#ready", g.loc(n), "an unknown peer's connection can become ready")
    if od:
        from ..effects import effects_of as _eo
        ge_ = cfg_of(f, effects=_eo(model))
        odn = [x for x in ge_.nodes if x.kind == "stmt" and getattr(x.ast, "lineno", -1) == od[0].ast.lineno]
        ctx.inst("receive_cer:unknown-peer#undecodable")
        if odn and "UnicodeDecodeError" in (odn[0].raises or ()):
            ctx.fail("receive_cer:unknown-peer#undecodable", g.loc(od[0]), f"`{od[0].text(70)}` raises "
                     f"UnicodeDecodeError for an Origin-Host that is not valid UTF-8: the generic error "
                     f"handler answers 5012 and the connection stays open, instead of 3010 followed by "
                     f"closing for this (necessarily unknown) peer")
    if od and ".lower()" not in ast.unparse(od[0].ast.value):
        ctx.fail("receive_cer:unknown-peer#case", g.loc(od[0]), "the Origin-Host is not compared "
                 "case-insensitively with the configured peers")
    # ... folded as bytes (ASCII letters only): str.lower() on the decoded text maps U+212A KELVIN
    # SIGN onto "k", and an unknown peer whose name differs from a configured one only in such a
    # character would be accepted as that peer instead of being answered 3010
    ctx.inst("receive_cer:unknown-peer#ascii-fold")
    if od:
        v_ = od[0].ast.value
        if isinstance(v_, ast.Call) and isinstance(v_.func, ast.Attribute) and v_.func.attr in ("lower", "casefold") \
                and isinstance(v_.func.value, ast.Call) and isinstance(v_.func.value.func, ast.Attribute) \
                and v_.func.value.func.attr == "decode":
            ctx.fail("receive_cer:unknown-peer#ascii-fold", g.loc(od[0]), f"`{od[0].text(70)}` lower-cases "
                     f"the decoded Origin-Host with str.lower(), which also maps non-ASCII characters "
                     f"onto ASCII letters: a peer that is not configured is taken for one that is")
    # the table the lower-cased Origin-Host is looked up in is filled with lower-cased names
    cons = "add_peer:table-key#case"
    ctx.inst(cons)
    ap = nc.methods.get("add_peer")
    if ap is None:
        ctx.error("Node.add_peer not found", rule="C06-R3")
    else:
        ctx.use(ap)
        for st in A.walk_no_nested(ap.node):
            if isinstance(st, ast.Assign):
                for t in st.targets:
                    if isinstance(t, ast.Subscript) and A.dotted(t.value) == "self.peers":
                        ktxt = A.resolve_local_chain(ap.node, t.slice)
                        if not ktxt.endswith(".lower()"):
                            ctx.fail(cons, ap.loc(st), f"add_peer stores the peer under `{ktxt}` (as "
                                     f"written in the URI) while receive_cer looks the lower-cased "
                                     f"Origin-Host up in self.peers: a peer configured with upper-case "
                                     f"letters is answered 3010 although it is known")
    # 5010
    cons = "receive_cer:no-common-application"
    ctx.inst(cons)
    n5010 = rcs.get(NOCOMMON, [])
    sup = {}
    for n in g.nodes:
        if n.kind == "stmt" and isinstance(n.ast, ast.Assign) and isinstance(n.ast.targets[0], ast.Name):
            v = ast.unparse(n.ast.value).replace(" ", "")
            for kind in ("auth", "acct"):
                if v.startswith(f"list(self.{kind}_application_ids&") or v.startswith(f"self.{kind}_application_ids&"):
                    sup[kind] = (n.ast.targets[0].id, n)
    relay = [n for n in g.nodes if n.kind == "stmt" and isinstance(n.ast, ast.Assign)
             and "APP_RELAY" in ast.unparse(n.ast.value)]
    rv = A.dotted(relay[0].ast.targets[0]) if relay else None
    if len(n5010) != 1 or len(sup) != 2 or rv is None:
        ctx.fail(cons, f.loc(), "no 5010 outcome decided from the separate intersections of the "
                 "authentication and the accounting application ids (and the relay id)")
    else:
        n = n5010[0]
        facts = must_facts(g, at, n)
        need = [(sup["auth"][0], "truthy", None, False), (sup["acct"][0], "truthy", None, False),
                (rv, "truthy", None, False)]
        miss = [x for x in need if x not in facts]
        if miss:
            ctx.fail(cons, g.loc(n), f"5010 is sent without requiring {miss} to be false")
        # intersections take the CER's ids of the same kind
        for kind, (var, dn) in sup.items():
            v = ast.unparse(dn.ast.value).replace(" ", "")
            other = v.split("&", 1)[1].rstrip(")")
            src = [x for x in g.nodes if x.kind == "stmt" and isinstance(x.ast, ast.Assign)
                   and any(A.dotted(t) == other for t in x.ast.targets)]
            if not src or f"{msg}.{kind}_application_id" not in ast.unparse(src[0].ast.value):
                ctx.fail(cons + f"#{kind}", g.loc(dn), f"the common {kind} applications are not the "
                         f"node's {kind} applications intersected with the CER's "
                         f"{kind.capitalize()}-Application-Ids: an application offered only in the "
                         f"other AVP counts as common (2001 instead of 5010)")
        if any(fl in g.reach([n], include_starts=False) for fl in flags + assigns):
            ctx.fail(cons + "#ready", g.loc(n), "a connection without common application becomes ready")
        if [x for x in state_stores_before(n) if g.can_reach(n, x)]:
            ctx.fail(cons + "#state", g.loc(n), "the 5010 outcome changes the connection state")
        # the complementary condition leads to success: 2001 requires (auth or acct or relay)
    # 2001
    cons = "receive_cer:success"
    ctx.inst(cons)
    n2001 = rcs.get(SUCCESS, [])
    if len(n2001) != 1:
        ctx.fail(cons, f.loc(), "no 2001 outcome")
    else:
        n = n2001[0]
        facts = must_facts(g, at, n)
        if (origin, "in-expr", "self.peers", True) not in facts:
            ctx.fail(cons, g.loc(n), "2001 can be sent to an unknown peer")
        if len(sup) == 2 and rv and not guarded_any(g, at, n, [
                lambda a: True if (a.subject == sup["auth"][0] and a.op == "truthy") else None,
                lambda a: True if (a.subject == sup["acct"][0] and a.op == "truthy") else None,
                lambda a: True if (a.subject == rv and a.op == "truthy") else None]):
            ctx.fail(cons + "#common", g.loc(n), "2001 can be sent although no application is shared "
                     "and the peer is no relay")
        ss = send_after(n)
        if not ss:
            ctx.fail(cons + "#send", g.loc(n), "the 2001 CEA is not sent")
        # 2001 and ready go together: on every path from the 2001 store to the return the
        # connection is assigned to its peer and then flagged ready ...
        after_n = [d for l, d in n.succ if l not in ("exc", "raise")]
        if not flags or not assigns or not g.dominated(flags[0], assigns) or not (
                g.dominated(n, flags) or g.exit not in g.reach(after_n, normal_blocked=flags)):
            ctx.fail(cons + "#ready", g.loc(n), "the 2001 CEA is sent without the connection being "
                     "assigned to its peer and flagged ready")
        # ... and only after the CEA has been queued: the ready flag releases application
        # threads waiting in wait_for_ready(), whose requests would overtake the CEA
        ctx.inst(cons + "#cea-before-ready")
        if ss and flags and not g.dominated(flags[0], ss):
            ctx.fail(cons + "#cea-before-ready", g.loc(flags[0]), "the connection is flagged ready "
                     "(application threads are released, the peer is offered for routing) before the "
                     "2001 CEA has been queued: a request sent at once leaves in front of the CEA and "
                     "is ignored by a peer that is still waiting for it")
        # negotiated ids recorded
        for kind in ("auth", "acct"):
            st = [x for x in g.nodes if x.kind == "stmt" and any(
                A.dotted(t) == f"{conn}.{kind}_application_ids" for t in x.stores())]
            if not st or (len(sup) == 2 and A.dotted(st[0].ast.value) != sup[kind][0]):
                ctx.fail(cons + f"#{kind}-ids", f.loc(), f"the negotiated {kind} application ids are "
                         f"not recorded on the connection")
        hi = [x for x in g.nodes if x.kind == "stmt" and any(A.dotted(t) == f"{conn}.host_identity" for t in x.stores())]
        if not hi or A.dotted(hi[0].ast.value) != origin or not g.dominated(flags[0] if flags else n, hi):
            ctx.fail(cons + "#identity", f.loc(), "the peer's host identity is not recorded before the "
                     "connection becomes ready")
    # election lost
    cons = "receive_cer:election-lost"
    ctx.inst(cons)
    ne = rcs.get(ELECT, [])
    for n in ne:
        cl = [x for x in g.nodes if x.kind == "stmt" and any(A.dotted(t) == f"{conn}.state" for t in x.stores())
              and model.try_fold(x.ast.value, f.module) == CLOSING and (g.can_reach(n, x) or g.can_reach(x, n))]
        if not cl:
            ctx.fail(cons, g.loc(n), "a lost election does not put the connection into PEER_CLOSING")
        ss_e = send_after(n)
        wake_e = [x for x in g.nodes if x.kind == "stmt" and any(
            A.call_name(c) == f"{conn}.demand_attention" for c in x.calls())]
        if ss_e and any(g.can_reach(x, ss_e[0]) and g.can_reach(n, x) for x in cl):
            ctx.fail(cons + "#closing-after-queueing", g.loc(n), "the connection is put into "
                     "PEER_CLOSING before the election-lost CEA is queued: the I/O loop closes a "
                     "CLOSING connection that has nothing queued or buffered, so the CEA can be lost")
        elif ss_e and g.exit in g.reach([d for l, d in ss_e[0].succ if l not in ("exc", "raise")],
                                        normal_blocked=wake_e):
            ctx.fail(cons + "#closing", g.loc(n), "after the election-lost CEA has been queued the "
                     "connection is not put into PEER_CLOSING with the node woken on every path")
        if any(fl in g.reach([n], include_starts=False) for fl in flags):
            ctx.fail(cons + "#ready", g.loc(n), "a connection that lost the election becomes ready")
    # every result code stored is one of the specified ones
    extra = [k for k in rcs if k not in (UNKNOWN, NOCOMMON, SUCCESS, ELECT)]
    ctx.inst("receive_cer:result-codes", sample=sorted(str(k) for k in rcs))
    if extra:
        ctx.fail("receive_cer:result-codes", g.loc(rcs[extra[0]][0]), f"unexpected CEA result code(s) {extra}")
    # every non-ready outcome leaves a state whose gate is closed or unchanged (R2)
    for n in g.nodes:
        if n.kind == "stmt":
            for t in n.stores():
                if A.dotted(t) == f"{conn}.state":
                    v = model.try_fold(n.ast.value, f.module)
                    ctx.inst("receive_cer:state-store")
                    if v != CLOSING:
                        ctx.fail("receive_cer:state-store", g.loc(n), f"receive_cer stores state {v}: "
                                 f"only PEER_CLOSING (gate closed) may be stored on a rejecting path; "
                                 f"ready is set by _flag_connection_as_ready")
