"""dv - static analysis of mensonen/diameter against properties C01..C20.

Everything in this package works on the *source text* of the repository as it
is on disk when a check runs (``ast`` only).  Nothing from the repository is
imported or executed.
"""
