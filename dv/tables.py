"""Static extraction of the repository's tables: avp_def tuples, the AVP
dictionary, the command registry.  Nothing is imported; literals are folded
through each module's own (star-)import namespace."""
from __future__ import annotations

import ast
from typing import Any

from .srcmodel import (AnalysisError, ClassInfo, Module, NotConst, Opaque,
                       SourceModel)

GENDEF_FIELDS = ("attr_name", "avp_code", "vendor_id", "is_required",
                 "is_mandatory", "type_class")
GENDEF_DEFAULTS = {"vendor_id": 0, "is_required": False, "is_mandatory": None,
                   "type_class": None}


class AvpDef:
    __slots__ = ("cls", "index", "node", "attr_name", "avp_code", "vendor_id",
                 "is_required", "is_mandatory", "type_class", "type_class_name",
                 "problems", "code_src", "vendor_src")

    def __init__(self):
        self.problems: list[str] = []
        self.type_class = None
        self.type_class_name = None

    @property
    def construct(self) -> str:
        return f"{self.cls.name}.{self.attr_name}"

    def where(self) -> str:
        return f"{self.cls.module.relpath}:{self.node.lineno}"


def gendef_fields(model: SourceModel) -> tuple[tuple[str, ...], dict[str, Any]]:
    """Read the field order/defaults of AvpGenDef from generator.py itself."""
    gen = model.module("message.avp.generator")
    ci = gen.classes.get("AvpGenDef")
    if ci is None:
        raise AnalysisError("AvpGenDef not found in message/avp/generator.py")
    fields, defaults = [], {}
    for st in ci.node.body:
        if isinstance(st, ast.AnnAssign) and isinstance(st.target, ast.Name):
            fields.append(st.target.id)
            if st.value is not None:
                defaults[st.target.id] = model.try_fold(st.value, gen, default=None)
    for need in GENDEF_FIELDS:
        if need not in fields:
            raise AnalysisError(f"AvpGenDef has no field {need}")
    return tuple(fields), defaults


def own_avp_def_expr(ci: ClassInfo) -> ast.expr | None:
    return ci.class_assigns.get("avp_def")


def extract_avp_defs(model: SourceModel, ci: ClassInfo,
                     fields=None, defaults=None) -> list[AvpDef] | None:
    """avp_def of *ci* as defined in its own body (None when it defines none)."""
    expr = own_avp_def_expr(ci)
    if expr is None:
        return None
    if fields is None:
        fields, defaults = gendef_fields(model)
    if not isinstance(expr, (ast.Tuple, ast.List)):
        raise AnalysisError(
            f"{ci.name}.avp_def at {ci.loc(expr)} is not a literal tuple")
    out = []
    mod = ci.module
    for i, el in enumerate(expr.elts):
        if not (isinstance(el, ast.Call) and ast.unparse(el.func).endswith("AvpGenDef")):
            raise AnalysisError(
                f"{ci.name}.avp_def[{i}] at {ci.loc(el)} is not an AvpGenDef(...) call")
        d = AvpDef()
        d.cls, d.index, d.node = ci, i, el
        vals: dict[str, ast.expr] = {}
        for j, a in enumerate(el.args):
            if j >= len(fields):
                raise AnalysisError(f"{ci.name}.avp_def[{i}] too many arguments")
            vals[fields[j]] = a
        for kw in el.keywords:
            if kw.arg is None or kw.arg not in fields:
                raise AnalysisError(f"{ci.name}.avp_def[{i}] bad keyword {kw.arg}")
            vals[kw.arg] = kw.value
        for f in GENDEF_FIELDS:
            if f not in vals:
                if f in defaults:
                    setattr(d, f, defaults[f])
                    continue
                raise AnalysisError(f"{ci.name}.avp_def[{i}] lacks {f}")
            e = vals[f]
            if f == "type_class":
                if isinstance(e, ast.Constant) and e.value is None:
                    d.type_class = None
                else:
                    d.type_class_name = ast.unparse(e)
                    tc = None
                    if isinstance(e, ast.Name):
                        tc = mod.lookup_class(e.id)
                    d.type_class = tc if tc is not None else Opaque(
                        f"unresolved:{d.type_class_name}")
                continue
            try:
                setattr(d, f, model.fold(e, mod))
            except NotConst as ex:
                raise AnalysisError(
                    f"{ci.name}.avp_def[{i}].{f} = {ast.unparse(e)} at "
                    f"{ci.loc(e)} does not fold to a constant ({ex})")
        d.code_src = ast.unparse(vals["avp_code"])
        d.vendor_src = ast.unparse(vals["vendor_id"]) if "vendor_id" in vals else "0"
        out.append(d)
    return out


def effective_avp_defs(model: SourceModel, ci: ClassInfo, fields=None,
                       defaults=None) -> tuple[ClassInfo, list[AvpDef]] | None:
    """avp_def as seen through the MRO (first class that assigns it)."""
    for c in model.mro(ci):
        if own_avp_def_expr(c) is not None:
            return c, extract_avp_defs(model, c, fields, defaults)
    return None


# ---------------------------------------------------------------------------
# dictionary
# ---------------------------------------------------------------------------
class DictEntry:
    __slots__ = ("code", "vendor", "name", "type_name", "type_cls", "mandatory",
                 "vendor_field", "key_src", "node", "has_mandatory")

    def where(self, mod: Module) -> str:
        return f"{mod.relpath}:{self.node.lineno}"


class AvpDictionary:
    def __init__(self):
        self.base: dict[int, DictEntry] = {}
        self.vendor: dict[int, dict[int, DictEntry]] = {}
        self.all_entries: list[DictEntry] = []
        self.duplicates: list[tuple[DictEntry, DictEntry]] = []
        self.module: Module | None = None

    def get(self, code: int, vendor: int) -> DictEntry | None:
        """Mirror of get_avp_dictionary_entry (its shape is checked by C01-R7)."""
        if vendor == 0:
            return self.base.get(code)
        return self.vendor.get(vendor, {}).get(code)


def _entries_from_dict(model, mod, dnode: ast.Dict, vendor: int | None,
                       target: dict, dct: AvpDictionary):
    for k, v in zip(dnode.keys, dnode.values):
        if k is None:
            raise AnalysisError(f"dict unpacking in {mod.relpath}:{dnode.lineno}")
        try:
            code = model.fold(k, mod)
        except NotConst as ex:
            raise AnalysisError(f"dictionary key {ast.unparse(k)} at "
                                f"{mod.relpath}:{k.lineno} does not fold ({ex})")
        if not isinstance(v, ast.Dict):
            raise AnalysisError(f"dictionary value for {ast.unparse(k)} at "
                                f"{mod.relpath}:{v.lineno} is not a dict literal")
        e = DictEntry()
        e.code, e.vendor, e.node, e.key_src = code, (vendor or 0), k, ast.unparse(k)
        e.name = e.type_name = e.type_cls = None
        e.mandatory = None
        e.has_mandatory = False
        e.vendor_field = None
        for fk, fv in zip(v.keys, v.values):
            fname = model.try_fold(fk, mod)
            if fname == "name":
                e.name = model.try_fold(fv, mod)
            elif fname == "type":
                e.type_name = ast.unparse(fv)
                if isinstance(fv, ast.Name):
                    e.type_cls = mod.lookup_class(fv.id)
            elif fname == "mandatory":
                e.mandatory = model.try_fold(fv, mod)
                e.has_mandatory = True
            elif fname == "vendor":
                e.vendor_field = model.try_fold(fv, mod)
        if code in target:
            dct.duplicates.append((target[code], e))
        target[code] = e
        dct.all_entries.append(e)


def extract_dictionary(model: SourceModel) -> AvpDictionary:
    mod = model.module("message.avp.dictionary")
    dct = AvpDictionary()
    dct.module = mod
    seen_base = seen_vendor = False
    for st in mod.tree.body:
        tgt = val = None
        if isinstance(st, ast.AnnAssign) and st.value is not None:
            tgt, val = st.target, st.value
        elif isinstance(st, ast.Assign) and len(st.targets) == 1:
            tgt, val = st.targets[0], st.value
        if tgt is None:
            continue
        if isinstance(tgt, ast.Name) and tgt.id == "AVP_DICTIONARY":
            if not isinstance(val, ast.Dict):
                raise AnalysisError("AVP_DICTIONARY is not a dict literal")
            _entries_from_dict(model, mod, val, None, dct.base, dct)
            seen_base = True
        elif isinstance(tgt, ast.Name) and tgt.id == "AVP_VENDOR_DICTIONARY":
            if not isinstance(val, ast.Dict):
                raise AnalysisError("AVP_VENDOR_DICTIONARY is not a dict literal")
            for k, v in zip(val.keys, val.values):
                vend = model.fold(k, mod)
                if not isinstance(v, ast.Dict):
                    raise AnalysisError("AVP_VENDOR_DICTIONARY value not a dict literal")
                _entries_from_dict(model, mod, v, vend,
                                   dct.vendor.setdefault(vend, {}), dct)
            seen_vendor = True
        elif (isinstance(tgt, ast.Subscript) and isinstance(tgt.value, ast.Name)
              and tgt.value.id == "AVP_VENDOR_DICTIONARY"):
            try:
                vend = model.fold(tgt.slice, mod)
            except NotConst as ex:
                raise AnalysisError(f"vendor key at {mod.relpath}:{st.lineno} "
                                    f"does not fold ({ex})")
            if not isinstance(val, ast.Dict):
                raise AnalysisError(
                    f"AVP_VENDOR_DICTIONARY[{vend}] at {mod.relpath}:{st.lineno} "
                    f"is not a dict literal")
            # whole-value assignment replaces an earlier table for that vendor
            dct.vendor[vend] = {}
            _entries_from_dict(model, mod, val, vend, dct.vendor[vend], dct)
        elif isinstance(tgt, ast.Subscript) and "AVP_" in ast.unparse(tgt) \
                and "DICTIONARY" in ast.unparse(tgt):
            raise AnalysisError(
                f"unrecognised dictionary store {ast.unparse(tgt)} at "
                f"{mod.relpath}:{st.lineno}")
    if not (seen_base and seen_vendor):
        raise AnalysisError("AVP_DICTIONARY / AVP_VENDOR_DICTIONARY not found")
    return dct


# ---------------------------------------------------------------------------
# command classes
# ---------------------------------------------------------------------------
def command_modules(model: SourceModel) -> list[Module]:
    pre = f"{model.package}.message.commands"
    return [m for n, m in sorted(model.modules.items())
            if n == pre or n.startswith(pre + ".")]


def command_classes(model: SourceModel) -> list[ClassInfo]:
    """Every class below message/commands that derives from Message."""
    base = model.cls("message._base", "Message")
    out = []
    for m in command_modules(model):
        for c in m.classes.values():
            if base in model.mro(c):
                out.append(c)
    return out


def grouped_classes(model: SourceModel) -> list[ClassInfo]:
    m = model.module("message.avp.grouped")
    return [c for c in m.classes.values()]


def class_code(model: SourceModel, ci: ClassInfo):
    r = model.class_attr_expr(ci, "code")
    if r is None:
        return None
    return model.try_fold(r[1], r[0].module, r[0], default=None)
