"""Findings, known-findings matching, evidence and replay files, exit codes."""
from __future__ import annotations

import json
import os
import time
import traceback
from typing import Any, Callable

from .srcmodel import AnalysisError, SourceModel

VERIF = os.path.dirname(os.path.dirname(os.path.abspath(__file__)))
KNOWN_FILE = os.path.join(VERIF, "known_findings.json")
EVIDENCE_DIR = os.path.join(VERIF, "evidence")


class Finding:
    def __init__(self, rule: str, construct: str, where: str, message: str,
                 steps: list[str] | None = None, expected: str = "", observed: str = ""):
        self.rule = rule
        self.construct = construct
        self.where = where          # file:line
        self.message = message
        self.steps = steps or []
        self.expected = expected
        self.observed = observed

    @property
    def key(self) -> str:
        return f"{self.rule}:{self.construct}"

    def as_dict(self) -> dict:
        return {"rule": self.rule, "key": self.key, "construct": self.construct,
                "where": self.where, "message": self.message, "steps": self.steps,
                "expected": self.expected, "observed": self.observed}


class Ctx:
    """Per-run context handed to the rule functions of one property."""

    def __init__(self, prop: str, model: SourceModel, tier: str):
        self.prop = prop
        self.model = model
        self.tier = tier
        self.findings: list[Finding] = []
        self.errors: list[str] = []
        self.info: list[str] = []
        self.rules: dict[str, dict[str, Any]] = {}
        self.samples: list[Any] = []
        self.modules_used: set[str] = set()
        self.functions: set[str] = set()
        self.assumptions: list[str] = []
        self.explanation = ""
        self._cur: str | None = None

    # -- rule bookkeeping -------------------------------------------------
    def rule(self, rid: str, desc: str, floor: int = 1):
        self._cur = rid
        if rid in self.rules and self.rules[rid]["desc"] != desc:
            raise AnalysisError(f"rule id {rid} registered twice with different descriptions")
        self.rules.setdefault(rid, {"desc": desc, "instances": 0, "floor": floor,
                                    "nontrivial": set(), "violations": 0})

    def cur(self, rid: str):
        if rid not in self.rules:
            raise KeyError(rid)
        self._cur = rid

    def inst(self, construct: str, nontrivial: bool = True, sample: Any = None,
             rule: str | None = None):
        """Record one evaluated rule instance (obligation)."""
        r = self.rules[rule or self._cur]
        r["instances"] += 1
        if nontrivial:
            r["nontrivial"].add(construct)
        if sample is not None and len(self.samples) < 60:
            self.samples.append({"rule": rule or self._cur, "instance": construct,
                                 "detail": sample})

    def fail(self, construct: str, where: str, message: str, steps=None,
             expected: str = "", observed: str = "", rule: str | None = None):
        rid = rule or self._cur
        f = Finding(rid, construct, where, message, steps, expected, observed)
        # one finding per key
        if any(x.key == f.key for x in self.findings):
            return
        self.findings.append(f)
        self.rules[rid]["violations"] += 1

    def error(self, message: str, rule: str | None = None):
        self.errors.append(f"rule={rule or self._cur} - {message}")

    def note(self, message: str):
        self.info.append(message)

    def include(self, other_run, only_rules: set, as_rule: str, desc: str, floor: int = 1,
                constructs=None, select=None):
        """Run another property's rule function and adopt the instances/findings of the
        rules in *only_rules* under the rule id *as_rule*.  *constructs*: optional predicate on
        the construct name restricting which findings are adopted."""
        if getattr(self, "nested", False):
            # includes do not nest: the including property adopts direct rules only
            self.rule(as_rule, desc + " (not evaluated inside an include)", 0)
            self.skipped_includes = getattr(self, "skipped_includes", set()) | {as_rule}
            return
        sub = Ctx(self.prop, self.model, self.tier)
        sub.nested = True
        other_run(sub)
        self.rule(as_rule, desc, floor)
        for rid in only_rules & getattr(sub, "skipped_includes", set()):
            self.error(f"included rule {rid} is itself an include and was not evaluated", rule=as_rule)
        for rid in only_rules:
            r = sub.rules.get(rid)
            if r is None:
                self.error(f"included rule {rid} did not run", rule=as_rule)
                continue
            self.rules[as_rule]["instances"] += r["instances"]
            self.rules[as_rule]["nontrivial"] |= r["nontrivial"]
        for f in sub.findings:
            if f.rule in only_rules and (constructs is None or constructs(f.construct)) \
                    and (select is None or select(f)):
                self.fail(f.construct, f.where, f.message, f.steps, f.expected, f.observed, rule=as_rule)
        for e in sub.errors:
            if any(f"rule={rid} " in e for rid in only_rules):
                self.errors.append(e.replace("rule=", f"rule={as_rule} via "))
        self.modules_used |= sub.modules_used
        self.functions |= sub.functions

    def use(self, *things):
        for t in things:
            mod = getattr(t, "module", t)
            rel = getattr(mod, "relpath", None)
            if rel:
                self.modules_used.add(rel)
            q = getattr(t, "qualname", None)
            if q:
                self.functions.add(f"{rel}:{q}")


def load_known() -> list[dict]:
    if not os.path.exists(KNOWN_FILE):
        return []
    with open(KNOWN_FILE) as fh:
        data = json.load(fh)
    return data.get("findings", [])


def run_property(prop: str, run: Callable[[Ctx], None], src_root: str, tier: str,
                 level_explanation: str, assumptions: list[str],
                 evidence_path: str | None = None, quiet: bool = False) -> int:
    t0 = time.time()
    seed = int(os.environ.get("VERIF_SEED", "0") or 0)
    evidence_path = evidence_path or os.path.join(EVIDENCE_DIR, f"{prop}.json")
    out: list[str] = []
    ctx = None
    status = 0
    try:
        model = SourceModel(src_root)
        ctx = Ctx(prop, model, tier)
        ctx.explanation = level_explanation
        ctx.assumptions = list(assumptions)
        run(ctx)
    except AnalysisError as e:
        out.append(f"ANALYSIS-ERROR property={prop} - {e}")
        status = 2
    except Exception as e:  # checker crash: never a pass, never a violation
        out.append(f"ANALYSIS-ERROR property={prop} - checker crashed: "
                   f"{type(e).__name__}: {e}")
        out.append(traceback.format_exc())
        status = 2

    violations: list[Finding] = []
    known_hit: list[tuple[Finding, dict]] = []
    stale: list[dict] = []
    if ctx is not None:
        for e in ctx.errors:
            out.append(f"ANALYSIS-ERROR property={prop} {e}")
            status = 2
        # instance floors: a rule that matched (almost) nothing is broken
        for rid, r in ctx.rules.items():
            if r["instances"] < r["floor"]:
                out.append(
                    f"ANALYSIS-ERROR property={prop} rule={rid} - only "
                    f"{r['instances']} instance(s) analysed, floor is {r['floor']} "
                    f"({r['desc']})")
                status = 2
        known = [k for k in load_known() if k.get("property") == prop]
        known_by_key = {k["key"]: k for k in known if k.get("status") == "known"}
        seen_keys = set()
        for f in ctx.findings:
            seen_keys.add(f.key)
            if f.key in known_by_key:
                known_hit.append((f, known_by_key[f.key]))
            else:
                violations.append(f)
        if status == 0:
            for k in known_by_key.values():
                if k["key"] not in seen_keys:
                    stale.append(k)

    replay_dir = os.path.join(os.path.dirname(evidence_path), "replay")
    if violations:
        os.makedirs(replay_dir, exist_ok=True)
    for i, f in enumerate(violations, 1):
        rp = os.path.join(replay_dir, f"{prop}-{i}.json")
        with open(rp, "w") as fh:
            json.dump({"property": prop, **f.as_dict()}, fh, indent=1, default=str)
        out.append(f"VIOLATION property={prop} replay={rp}")
        out.append(f"  rule={f.rule} construct={f.construct} at {f.where} - {f.message}")
        for s in f.steps[:12]:
            out.append(f"    {s}")
    for f, k in known_hit:
        out.append(f"KNOWN-FINDING: property={prop} {k.get('what_fails', f.message)} "
                   f"[{f.key} at {f.where}]")
    for k in stale:
        out.append(f"STALE-KNOWN-FINDING: property={prop} {k['key']} no longer fires")

    if violations and status != 2:
        status = 1
    elif violations and status == 2:
        status = 1   # a definite violation is still reported

    sweep_res = None
    if tier == "thorough" and ctx is not None and status == 0:
        from .sweep import sweep
        try:
            sweep_res = sweep(prop, src_root, [f.key for f in ctx.findings],
                              jobs=int(os.environ.get("DV_JOBS", "8")))
        except Exception as e:
            out.append(f"ANALYSIS-ERROR property={prop} rule=sweep - {type(e).__name__}: {e}")
            status = 2
        if sweep_res is not None:
            bad = [r for r in sweep_res if r[1] in ("MISSED", "FALSE-ALARM")]
            for vid, st, detail in bad:
                out.append(f"ANALYSIS-ERROR property={prop} rule=sweep - variant {vid}: {st} ({detail}) "
                           f"- the checker is not sensitive/invariant on this tree")
                status = 2

    wall = time.time() - t0
    if ctx is not None:
        n_inst = sum(r["instances"] for r in ctx.rules.values())
        nontriv = sum(len(r["nontrivial"]) for r in ctx.rules.values())
        n_viol = len(ctx.findings)
        rules_tbl = {rid: {"description": r["desc"], "instances": r["instances"],
                           "distinct_nontrivial": len(r["nontrivial"]),
                           "floor": r["floor"], "findings": r["violations"]}
                     for rid, r in ctx.rules.items()}
        ev = {
            "property_id": prop, "tier": tier, "seed": seed, "level": "other",
            "coverage": {
                "explanation": ctx.explanation,
                "evaluations": max(n_inst, 0) + (len(sweep_res) if sweep_res else 0),
                "distinct_nontrivial": nontriv,
                "rule": "one evaluation = one rule instance (table cell, call site, "
                        "store site, CFG query or enumerated path) found in the current "
                        "source; non-trivial = the instance had a construct to check "
                        "(counted distinct by construct name)",
                "obligations": n_inst,
                "discharged": n_inst - n_viol,
                "samples": ctx.samples[:40] or [{"note": "no instance recorded"}],
                "rules": rules_tbl,
                "modules": {p: d for p, d in ctx.model.digests().items()
                            if p in ctx.modules_used},
                "functions_analysed": sorted(ctx.functions),
                "known_findings_matched": [k["key"] for _, k in known_hit],
                "unlisted_findings": [f.as_dict() for f in violations],
                "analysis_errors": [o for o in out if o.startswith("ANALYSIS-ERROR")],
                "notes": ctx.info[:80],
                "exhaustive": False,
                **({"sensitivity_sweep": {
                    "variants": len(sweep_res),
                    "detected": sum(1 for r in sweep_res if r[1] == "detected"),
                    "neutral_silent": sum(1 for r in sweep_res if r[1] == "silent"),
                    "refused": sum(1 for r in sweep_res if r[1] == "refused"),
                    "skipped": sum(1 for r in sweep_res if r[1] == "skipped"),
                    "failed": [r for r in sweep_res if r[1] in ("MISSED", "FALSE-ALARM")],
                    "results": [list(r) for r in sweep_res][:80]}} if sweep_res is not None else {}),
            },
            "assumptions": ctx.assumptions,
            "wall_s": round(wall, 3),
            "violations": len(violations),
        }
    else:
        ev = {"property_id": prop, "tier": tier, "seed": seed, "level": "other",
              "coverage": {"explanation": "analysis failed before any rule ran: "
                           + (out[0] if out else "?"),
                           "evaluations": 0, "distinct_nontrivial": 0},
              "assumptions": list(assumptions), "wall_s": round(wall, 3),
              "violations": 0}
    os.makedirs(os.path.dirname(evidence_path), exist_ok=True)
    with open(evidence_path, "w") as fh:
        json.dump(ev, fh, indent=1, default=str)

    if not quiet:
        for line in out:
            print(line)
        if ctx is not None:
            n_inst = sum(r["instances"] for r in ctx.rules.values())
            if sweep_res is not None:
                print(f"{prop} sweep: {len(sweep_res)} variants, "
                      f"{sum(1 for r in sweep_res if r[1] == 'detected')} detected, "
                      f"{sum(1 for r in sweep_res if r[1] == 'silent')} neutral silent, "
                      f"{sum(1 for r in sweep_res if r[1] == 'skipped')} skipped, "
                      f"{sum(1 for r in sweep_res if r[1] in ('MISSED', 'FALSE-ALARM'))} failed")
            print(f"{prop} [{tier}] rules={len(ctx.rules)} instances={n_inst} "
                  f"findings={len(ctx.findings)} (known={len(known_hit)}, "
                  f"unlisted={len(violations)}) status={status} wall={wall:.2f}s")
    return status
