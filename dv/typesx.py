"""Annotation-driven receiver typing (deliberately small and explicit)."""
from __future__ import annotations

import ast

from .srcmodel import ClassInfo, FuncInfo, Module, SourceModel
from . import astutil as A

BUILTIN_TYPES = {"bytes", "str", "int", "float", "bool", "list", "dict", "set", "tuple",
                 "bytearray", "deque", "object", "Callable", "Any"}


def ann_type(model: SourceModel, mod: Module, ann: ast.expr | None):
    """ClassInfo | 'ext:<text>' | None for an annotation expression."""
    if ann is None:
        return None
    if isinstance(ann, ast.Constant) and isinstance(ann.value, str):
        try:
            ann = ast.parse(ann.value, mode="eval").body
        except SyntaxError:
            return None
    if isinstance(ann, ast.BinOp) and isinstance(ann.op, ast.BitOr):
        for side in (ann.left, ann.right):
            if isinstance(side, ast.Constant) and side.value is None:
                continue
            t = ann_type(model, mod, side)
            if t is not None:
                return t
        return None
    if isinstance(ann, ast.Subscript):
        base = ast.unparse(ann.value)
        if base in ("Optional", "typing.Optional"):
            return ann_type(model, mod, ann.slice)
        if base in ("Type", "type", "typing.Type"):
            return None
        return f"ext:{base}"
    if isinstance(ann, ast.Name):
        if ann.id in BUILTIN_TYPES:
            return f"ext:{ann.id}"
        ci = mod.lookup_class(ann.id)
        if ci is not None:
            return ci
        b = mod.lookup(ann.id)
        if b is not None and b.kind in ("extattr",):
            return f"ext:{b.target}.{b.attr}"
        return None
    if isinstance(ann, ast.Attribute):
        s = ast.unparse(ann)
        if isinstance(ann.value, ast.Name):
            b = mod.lookup(ann.value.id)
            if b is not None and b.kind == "module":
                ci = b.module.lookup_class(ann.attr)
                if ci is not None:
                    return ci
        return f"ext:{s}"
    return None


def elem_type(model: SourceModel, mod: Module, ann: ast.expr | None, which: str):
    """Element type of a container annotation: which in {'value', 'key', 'item'}."""
    if ann is None:
        return None
    if isinstance(ann, ast.Constant) and isinstance(ann.value, str):
        try:
            ann = ast.parse(ann.value, mode="eval").body
        except SyntaxError:
            return None
    if not isinstance(ann, ast.Subscript):
        return None
    base = ast.unparse(ann.value)
    sl = ann.slice
    if base in ("dict", "Dict") and isinstance(sl, ast.Tuple) and len(sl.elts) == 2:
        return ann_type(model, mod, sl.elts[1 if which == "value" else 0])
    if base in ("list", "List", "set", "deque", "Set") and which == "item":
        return ann_type(model, mod, sl)
    return None


def attr_annotation(model: SourceModel, ci: ClassInfo, attr: str):
    """(module, annotation expr | None, value expr | None) of  self.<attr>  in the class
    hierarchy (class body annotations, then __init__ stores)."""
    for c in model.mro(ci):
        if attr in c.annotations:
            return c.module, c.annotations[attr], c.class_assigns.get(attr)
        init = c.methods.get("__init__")
        if init is not None:
            for n in A.walk_no_nested(init.node):
                if isinstance(n, ast.AnnAssign) and isinstance(n.target, ast.Attribute) \
                        and n.target.attr == attr and A.dotted(n.target.value) == "self":
                    return c.module, n.annotation, n.value
            for n in A.walk_no_nested(init.node):
                if isinstance(n, ast.Assign):
                    for t in n.targets:
                        if isinstance(t, ast.Attribute) and t.attr == attr \
                                and A.dotted(t.value) == "self":
                            return c.module, None, n.value
        p = c.methods.get(attr)
        if p is not None and p.is_property:
            return c.module, p.node.returns, None
    return None


def value_type(model: SourceModel, f: FuncInfo, v: ast.expr | None, depth: int):
    if v is None:
        return None
    if isinstance(v, ast.Call):
        fn = v.func
        if isinstance(fn, ast.Name):
            ci = f.module.lookup_class(fn.id)
            if ci is not None:
                return ci
            b = f.module.lookup(fn.id)
            if b is not None and b.kind == "func":
                g = b.module.funcs.get(b.node.name)
                if g is not None and g.node.returns is not None:
                    return ann_type(model, g.module, g.node.returns)
            if fn.id in BUILTIN_TYPES:
                return f"ext:{fn.id}"
        if isinstance(fn, ast.Attribute):
            s = A.dotted(fn)
            if isinstance(fn.value, ast.Name):
                b = f.module.lookup(fn.value.id)
                if b is not None and b.kind in ("extmodule",):
                    return f"ext:{b.target}.{fn.attr}"
                if b is not None and b.kind == "module":
                    ci = b.module.lookup_class(fn.attr)
                    if ci is not None:
                        return ci
            # method call with a return annotation
            rc = expr_type(model, f, fn.value, depth - 1) if depth > 0 else None
            if isinstance(rc, ClassInfo):
                g = model.find_method(rc, fn.attr)
                if g is not None and g.node.returns is not None:
                    return ann_type(model, g.module, g.node.returns)
            if fn.attr == "get" and depth > 0:
                # dict.get on an annotated dict attribute
                et = _container_elem(model, f, fn.value, "value", depth - 1)
                if et is not None:
                    return et
        return None
    if isinstance(v, (ast.Name, ast.Attribute, ast.Subscript)) and depth > 0:
        return expr_type(model, f, v, depth - 1)
    if isinstance(v, ast.Constant):
        return f"ext:{type(v.value).__name__}"
    if isinstance(v, ast.JoinedStr):
        return "ext:str"
    if isinstance(v, (ast.List, ast.ListComp)):
        return "ext:list"
    if isinstance(v, (ast.Dict, ast.DictComp)):
        return "ext:dict"
    return None


def _container_elem(model, f, cont: ast.expr, which: str, depth: int):
    if isinstance(cont, ast.Attribute):
        bt = expr_type(model, f, cont.value, depth)
        if isinstance(bt, ClassInfo):
            r = attr_annotation(model, bt, cont.attr)
            if r is not None:
                return elem_type(model, r[0], r[1], which)
    return None


def expr_type(model: SourceModel, f: FuncInfo, e: ast.expr, depth: int = 4):
    cache = model.__dict__.setdefault("_expr_type_cache", {})
    key = (id(f.node), id(e), depth)
    hit = cache.get(key)
    if hit is not None and hit[0] is e:
        return hit[1]
    r = _expr_type(model, f, e, depth)
    cache[key] = (e, r)
    return r


def _expr_type(model: SourceModel, f: FuncInfo, e: ast.expr, depth: int = 4):
    if isinstance(e, ast.Name):
        if e.id in ("self", "cls") and f.cls is not None:
            return f.cls
        args = f.node.args
        for a in args.args + args.kwonlyargs + args.posonlyargs:
            if a.arg == e.id:
                return ann_type(model, f.module, a.annotation)
        # locals
        types = []
        for n in A.walk_no_nested(f.node):
            if isinstance(n, ast.AnnAssign) and isinstance(n.target, ast.Name) \
                    and n.target.id == e.id:
                t = ann_type(model, f.module, n.annotation)
                if t is not None:
                    return t
            if isinstance(n, ast.Assign) and depth > 0:
                for t in n.targets:
                    if isinstance(t, ast.Name) and t.id == e.id:
                        types.append(value_type(model, f, n.value, depth))
                    if isinstance(t, ast.Tuple):
                        for i, el in enumerate(t.elts):
                            if isinstance(el, ast.Name) and el.id == e.id:
                                types.append(None)
            if isinstance(n, (ast.For, ast.comprehension)) and depth > 0:
                tgt, it = n.target, n.iter
                names = [tgt] if isinstance(tgt, ast.Name) else \
                    (list(tgt.elts) if isinstance(tgt, ast.Tuple) else [])
                for i, nm in enumerate(names):
                    if isinstance(nm, ast.Name) and nm.id == e.id:
                        types.append(_iter_elem(model, f, it, i, len(names), depth - 1))
            if isinstance(n, ast.ExceptHandler) and n.name == e.id:
                return "ext:Exception"
            if isinstance(n, ast.With):
                for it in n.items:
                    if isinstance(it.optional_vars, ast.Name) and it.optional_vars.id == e.id:
                        return None
        known = [t for t in types if t is not None]
        if known and all(_same(t, known[0]) for t in known):
            return known[0]
        # module level name (module object / global instance)
        b = f.module.lookup(e.id)
        if b is not None and b.kind in ("extmodule",):
            return f"ext:module:{b.target}"
        return None
    if isinstance(e, ast.Attribute):
        bt = expr_type(model, f, e.value, depth)
        if isinstance(bt, ClassInfo):
            r = attr_annotation(model, bt, e.attr)
            if r is not None:
                mod, ann, val = r
                t = ann_type(model, mod, ann)
                if t is not None:
                    return t
                if val is not None:
                    init = None
                    for c in model.mro(bt):
                        if "__init__" in c.methods:
                            init = c.methods["__init__"]
                            break
                    if init is not None:
                        return value_type(model, init, val, depth - 1)
            return None
        if isinstance(bt, str):
            return "ext:?"
        return None
    if isinstance(e, ast.Subscript) and depth > 0:
        et = _container_elem(model, f, e.value, "value", depth - 1)
        if et is None:
            et = _container_elem(model, f, e.value, "item", depth - 1)
        return et
    if isinstance(e, ast.Call):
        return value_type(model, f, e, depth)
    return None


def _same(a, b) -> bool:
    return a is b or (isinstance(a, str) and isinstance(b, str) and a == b)


def _iter_elem(model, f, it: ast.expr, idx: int, n: int, depth: int):
    # list(X) / sorted(X) wrappers
    while isinstance(it, ast.Call) and A.call_name(it) in ("list", "sorted", "tuple", "reversed") \
            and it.args:
        it = it.args[0]
    if isinstance(it, ast.Call) and isinstance(it.func, ast.Attribute):
        m = it.func.attr
        cont = it.func.value
        if m == "values" and n == 1:
            return _container_elem(model, f, cont, "value", depth)
        if m == "keys" and n == 1:
            return _container_elem(model, f, cont, "key", depth)
        if m == "items" and n == 2:
            return _container_elem(model, f, cont, "key" if idx == 0 else "value", depth)
    if isinstance(it, ast.Attribute) and n == 1:
        return _container_elem(model, f, it, "item", depth)
    if isinstance(it, ast.Name) and n == 1:
        # parameter annotated list[T]
        for a in f.node.args.args:
            if a.arg == it.id:
                return elem_type(model, f.module, a.annotation, "item")
    return None
