"""AST-level absorption of helpers that are unknown to the rules.

A method whose name is not in KNOWN_METHODS (i.e. it did not exist when the rules were
written - typically the product of an extract-method refactoring) and that returns no
value is substituted for its statement-level calls `self.<helper>(args)` in the methods
of the same class, and then hidden from the model.  Every rule - whether it walks the
syntax tree of a function or its CFG - therefore sees the un-refactored shape.  Helpers
that return values are handled at CFG level (dv/cfg.py)."""
from __future__ import annotations

import ast
import copy

from .known_methods import KNOWN_METHODS


def _returns_value(fn: ast.FunctionDef) -> bool:
    for n in ast.walk(fn):
        if isinstance(n, ast.Return) and n.value is not None and not (
                isinstance(n.value, ast.Constant) and n.value.value is None):
            return True
        if isinstance(n, (ast.Yield, ast.YieldFrom, ast.Global, ast.Nonlocal)):
            return True
    return False


def _has_inner_return(fn: ast.FunctionDef) -> bool:
    """A bare `return` anywhere except as the very last statement cannot be spliced."""
    body = fn.body
    for i, st in enumerate(body):
        for n in ast.walk(st):
            if isinstance(n, ast.Return):
                if not (n is st and i == len(body) - 1):
                    return True
    return False


def absorb_helpers(model, packages=("diameter.node", "diameter.message._base",
                                    "diameter.message.avp.avp", "diameter.message.packer",
                                    "diameter.message.commands")):
    absorbed = []
    for mname, mod in model.modules.items():
        if not any(mname.startswith(p) for p in packages):
            continue
        for ci in mod.classes.values():
            for _ in range(2):          # helpers calling helpers
                cands = {}
                for f in list(ci.all_funcs):
                    fn = f.node
                    if f.name in KNOWN_METHODS or f.name.startswith("__") or fn.decorator_list:
                        continue
                    a = fn.args
                    if a.vararg or a.kwarg or a.kwonlyargs or a.posonlyargs or not a.args \
                            or a.args[0].arg != "self":
                        continue
                    if _returns_value(fn) or _has_inner_return(fn):
                        continue
                    cands[f.name] = f
                if not cands:
                    break
                progress = False
                for name, helper in cands.items():
                    sites, other_refs = [], 0
                    # (a helper of a base class is called by the methods of its subclasses too)
                    try:
                        family = [ci] + [c_ for c_ in model.subclasses(ci) if c_.module is mod]
                    except Exception:
                        family = [ci]
                    for f in [g_ for c_ in family for g_ in c_.all_funcs]:
                        if f is helper:
                            continue
                        for parent in ast.walk(f.node):
                            for fld in ("body", "orelse", "finalbody"):
                                blk = getattr(parent, fld, None)
                                if not isinstance(blk, list):
                                    continue
                                for i, st in enumerate(blk):
                                    if isinstance(st, ast.Expr) and isinstance(st.value, ast.Call) \
                                            and isinstance(st.value.func, ast.Attribute) \
                                            and st.value.func.attr == name \
                                            and isinstance(st.value.func.value, ast.Name) \
                                            and st.value.func.value.id == "self":
                                        sites.append((f, blk, i, st.value))
                        for n in ast.walk(f.node):
                            if isinstance(n, ast.Attribute) and n.attr == name:
                                other_refs += 1
                    # references from other classes / modules
                    ext = 0
                    for m2 in model.modules.values():
                        for n in ast.walk(m2.tree):
                            if isinstance(n, ast.Attribute) and n.attr == name:
                                # `self.<name>` in another module is that module's own helper of
                                # the same name (sibling command modules are written alike)
                                if m2 is not mod and isinstance(n.value, ast.Name) and n.value.id == "self" \
                                        and any(name in c2.methods for c2 in m2.classes.values()):
                                    continue
                                ext += 1
                    if not sites or other_refs != len(sites) or ext != len(sites):
                        continue
                    ok = True
                    plans = []
                    for f, blk, i, call in sites:
                        body = _instantiate(helper.node, call, f.node)
                        if body is None:
                            ok = False
                            break
                        plans.append((blk, i, body))
                    if not ok:
                        continue
                    for blk, i, body in sorted(plans, key=lambda p: -p[1]):
                        blk[i:i + 1] = body
                    ci.all_funcs.remove(helper)
                    ci.methods.pop(name, None)
                    try:
                        ci.node.body.remove(helper.node)
                    except ValueError:
                        pass
                    absorbed.append(f"{ci.name}.{name}")
                    progress = True
                if not progress:
                    break
    return absorbed


def _instantiate(helper: ast.FunctionDef, call: ast.Call, caller: ast.FunctionDef):
    a = helper.args
    params = [x.arg for x in a.args][1:]
    if len(call.args) > len(params) or any(k.arg is None or k.arg not in params for k in call.keywords):
        return None
    binding = dict(zip(params, call.args))
    for k in call.keywords:
        binding[k.arg] = k.value
    defaults = dict(zip(params[len(params) - len(a.defaults):], a.defaults))
    for p in params:
        if p not in binding:
            if p not in defaults:
                return None
            binding[p] = defaults[p]
    for x in ast.walk(helper):
        if isinstance(x, ast.Name) and isinstance(x.ctx, ast.Store) and x.id in binding \
                and not (isinstance(binding[x.id], ast.Name) and binding[x.id].id == x.id):
            return None
    caller_names = {x.id for x in ast.walk(caller) if isinstance(x, ast.Name)}
    caller_names |= {x.arg for x in caller.args.args}
    locals_ = {x.id for x in ast.walk(helper) if isinstance(x, ast.Name) and isinstance(x.ctx, ast.Store)}
    locals_ |= {h.name for x in ast.walk(helper) if isinstance(x, ast.Try) for h in x.handlers if h.name}
    locals_ -= set(params)
    ren = {x: f"{x}__{helper.name.strip('_')}" for x in locals_ if x in caller_names}

    class Sub(ast.NodeTransformer):
        def visit_Name(self, node):
            if node.id in binding and not isinstance(node.ctx, ast.Store):
                return copy.deepcopy(binding[node.id])
            if node.id in ren:
                return ast.copy_location(ast.Name(id=ren[node.id], ctx=node.ctx), node)
            return node

        def visit_ExceptHandler(self, node):
            if node.name in ren:
                node.name = ren[node.name]
            self.generic_visit(node)
            return node
    body = [copy.deepcopy(st) for st in helper.body]
    # drop a docstring and a trailing bare return
    if body and isinstance(body[0], ast.Expr) and isinstance(body[0].value, ast.Constant) \
            and isinstance(body[0].value.value, str):
        body = body[1:]
    if body and isinstance(body[-1], ast.Return):
        body = body[:-1]
    body = [Sub().visit(st) for st in body]
    for st in body:
        ast.fix_missing_locations(st)
    return body or [ast.copy_location(ast.Pass(), call)]


def desugar_optional_setters(model, packages=("diameter.node",)):
    """`x = self.build(a, b, attr=V)`  ->  `x = self.build(a, b); x.attr = V`.

    A method that ends with `return <r>` and contains, for a parameter p with default None, the
    statement `if p is not None: <r>.<name> = p` (and no other use of p) offers p as an optional
    setter of the object it returns.  A call that passes p - written as the whole right-hand side
    of an assignment to a plain name - is rewritten into the call without p followed by the store,
    which is what the method would have done; the parameter handling is then removed from the
    method.  Every rule sees the two-statement spelling, whichever the source uses."""
    done = []
    for mname, mod in model.modules.items():
        if not any(mname.startswith(p) for p in packages):
            continue
        for ci in mod.classes.values():
            for f in list(ci.all_funcs):
                fn = f.node
                if not fn.body or not isinstance(fn.body[-1], ast.Return) \
                        or not isinstance(fn.body[-1].value, ast.Name):
                    continue
                ret = fn.body[-1].value.id
                a = fn.args
                params = [x.arg for x in a.args]
                defaults = dict(zip(params[len(params) - len(a.defaults):], a.defaults))
                setters = {}      # param -> (attr, stmt)
                for st in fn.body:
                    if isinstance(st, ast.If) and not st.orelse and len(st.body) == 1 \
                            and isinstance(st.test, ast.Compare) and len(st.test.ops) == 1 \
                            and isinstance(st.test.ops[0], ast.IsNot) and isinstance(st.test.left, ast.Name) \
                            and isinstance(st.test.comparators[0], ast.Constant) and st.test.comparators[0].value is None:
                        p = st.test.left.id
                        b = st.body[0]
                        if p in defaults and isinstance(defaults[p], ast.Constant) and defaults[p].value is None \
                                and isinstance(b, ast.Assign) and len(b.targets) == 1 \
                                and isinstance(b.targets[0], ast.Attribute) and isinstance(b.targets[0].value, ast.Name) \
                                and b.targets[0].value.id == ret and isinstance(b.value, ast.Name) and b.value.id == p:
                            uses = sum(1 for x in ast.walk(fn) if isinstance(x, ast.Name) and x.id == p)
                            if uses == 2:
                                setters[p] = (b.targets[0].attr, st)
                if not setters:
                    continue
                # every call of the method in the class passes the setter parameters by keyword
                # (or not at all) and is the right-hand side of `name = self.m(...)`
                sites, ok, trims = [], True, []
                for g in ci.all_funcs:
                    for parent in ast.walk(g.node):
                        for fld in ("body", "orelse", "finalbody"):
                            blk = getattr(parent, fld, None)
                            if not isinstance(blk, list):
                                continue
                            for i, st in enumerate(blk):
                                if hasattr(st, "body") or isinstance(st, ast.Match):
                                    # compound statement: its blocks are visited on their own; a call in
                                    # its header (test, iterable) cannot be rewritten
                                    hdr = [x for fl in ("test", "iter", "subject", "items") for x in
                                           ([getattr(st, fl)] if isinstance(getattr(st, fl, None), ast.AST)
                                            else getattr(st, fl, None) or [])]
                                    if any(isinstance(x, ast.Call) and isinstance(x.func, ast.Attribute)
                                           and x.func.attr == f.name and (x.keywords or len(x.args) > 2)
                                           for h_ in hdr for x in ast.walk(h_)):
                                        ok = False
                                    continue
                                for c in [x for x in ast.walk(st) if isinstance(x, ast.Call)
                                          and isinstance(x.func, ast.Attribute) and x.func.attr == f.name
                                          and isinstance(x.func.value, ast.Name) and x.func.value.id == "self"]:
                                    kws = [k for k in c.keywords if k.arg in setters]
                                    # (the normaliser may have made keyword arguments positional)
                                    first = min(params.index(p) for p in setters) - 1
                                    if set(params[first + 1:]) != set(setters):
                                        ok = False          # setters are not the trailing parameters
                                        continue
                                    for j in range(len(c.args) - 1, first - 1, -1):
                                        v_ = c.args[j]
                                        if not (isinstance(v_, ast.Constant) and v_.value is None):
                                            kws.insert(0, ast.keyword(arg=params[j + 1], value=v_))
                                    if not kws:
                                        if len(c.args) > first:
                                            trims.append((c, first))
                                        continue
                                    trims.append((c, first))
                                    if isinstance(st, (ast.Assign, ast.AnnAssign)) and st.value is c \
                                            and isinstance((st.targets[0] if isinstance(st, ast.Assign) else st.target), ast.Name):
                                        sites.append((blk, st, c, kws))
                                    else:
                                        ok = False
                ext = sum(1 for m2 in model.modules.values() if m2 is not mod for n in ast.walk(m2.tree)
                          if isinstance(n, ast.Call) and isinstance(n.func, ast.Attribute) and n.func.attr == f.name
                          and any(k.arg in setters for k in n.keywords))
                if not ok or ext:
                    continue
                for c, first in trims:
                    del c.args[first:]
                for blk, st, c, kws in sites:
                    tgt = (st.targets[0] if isinstance(st, ast.Assign) else st.target).id
                    new = []
                    for k in kws:
                        if k in c.keywords:
                            c.keywords.remove(k)
                        s2 = ast.Assign(targets=[ast.Attribute(value=ast.Name(id=tgt, ctx=ast.Load()),
                                                               attr=setters[k.arg][0], ctx=ast.Store())],
                                        value=k.value)
                        ast.copy_location(s2, st)
                        ast.fix_missing_locations(s2)
                        new.append(s2)
                    i = blk.index(st)
                    blk[i + 1:i + 1] = new
                for p, (attr, st) in setters.items():
                    fn.body.remove(st)
                    idx = params.index(p)
                    del a.args[idx]
                    del a.defaults[idx - (len(params) - len(a.defaults))]
                    params = [x.arg for x in a.args]
                done.append(f"{ci.name}.{f.name}({', '.join(setters)})")
    return done


def absorb_value_helpers(model, packages=("diameter.message.avp.generator", "diameter.message.commands._attributes",
                                          "diameter.message._base", "diameter.node")):
    """A private module-level function that the rules do not know, whose body is straight-line
    (assignments / expression statements) and ends in `return <expr>`, is spliced into the simple
    statements that call it: its statements (parameters replaced by the arguments, locals renamed
    where they clash) go in front of the statement and the call becomes the returned value.  The
    product of an extract-function refactoring of two identical branches thereby reads like the
    branches did."""
    absorbed = []
    for mname, mod in model.modules.items():
        if not any(mname.startswith(p) for p in packages):
            continue
        for name, fi in list(mod.funcs.items()):
            fn = fi.node
            if not name.startswith("_") or name.startswith("__") or name in KNOWN_METHODS or fn.decorator_list:
                continue
            a = fn.args
            if a.vararg or a.kwarg or a.kwonlyargs or a.posonlyargs:
                continue
            body = [b for b in fn.body if not (isinstance(b, ast.Expr) and isinstance(b.value, ast.Constant)
                                               and isinstance(b.value.value, str))]
            if len(body) < 2 or not isinstance(body[-1], ast.Return) or body[-1].value is None \
                    or not all(isinstance(b, (ast.Assign, ast.AnnAssign, ast.Expr)) for b in body[:-1]):
                continue
            # every reference is a call from a simple statement of a function of this module
            refs = [n for m2 in model.modules.values() for n in ast.walk(m2.tree)
                    if isinstance(n, ast.Name) and n.id == name and isinstance(n.ctx, ast.Load)]
            refs += [n for m2 in model.modules.values() for n in ast.walk(m2.tree)
                     if isinstance(n, ast.Attribute) and n.attr == name]
            sites = []
            for caller in [f_.node for f_ in mod.funcs.values() if f_ is not fi] + \
                          [f_.node for c_ in mod.classes.values() for f_ in c_.all_funcs]:
                for parent in ast.walk(caller):
                    for fld in ("body", "orelse", "finalbody"):
                        blk = getattr(parent, fld, None)
                        if not isinstance(blk, list):
                            continue
                        for st in blk:
                            if hasattr(st, "body") or not isinstance(st, (ast.Expr, ast.Assign, ast.AnnAssign,
                                                                          ast.AugAssign, ast.Return)):
                                continue
                            for c in ast.walk(st):
                                if isinstance(c, ast.Call) and isinstance(c.func, ast.Name) and c.func.id == name:
                                    sites.append((caller, blk, st, c))
            if not sites or len(sites) != len(refs):
                continue
            retname = f"{name.strip('_')}__value"
            shadow = copy.deepcopy(fn)
            # _instantiate expects a method: give the copy a `self` it never uses
            shadow.args.args.insert(0, ast.arg(arg="self"))
            sb = [b for b in shadow.body if not (isinstance(b, ast.Expr) and isinstance(b.value, ast.Constant)
                                                 and isinstance(b.value.value, str))]
            sb[-1] = ast.copy_location(ast.Assign(targets=[ast.Name(id=retname, ctx=ast.Store())],
                                                  value=sb[-1].value), sb[-1])
            shadow.body = sb
            plans, ok = [], True
            for caller, blk, st, c in sites:
                spliced = _instantiate(shadow, c, caller)
                if spliced is None:
                    ok = False
                    break
                plans.append((blk, st, c, spliced))
            if not ok:
                continue
            for blk, st, c, spliced in plans:
                class Rep(ast.NodeTransformer):
                    def visit_Call(self, node):
                        if node is c:
                            return ast.copy_location(ast.Name(id=retname, ctx=ast.Load()), node)
                        return self.generic_visit(node)
                Rep().visit(st)
                for s2 in spliced:
                    for y in ast.walk(s2):
                        ast.copy_location(y, st) if hasattr(y, "lineno") or isinstance(y, (ast.expr, ast.stmt)) else None
                i = blk.index(st)
                blk[i:i] = spliced
                ast.fix_missing_locations(st)
            mod.funcs.pop(name, None)
            try:
                mod.tree.body.remove(fn)
            except ValueError:
                pass
            absorbed.append(f"{mname}.{name}")
    return absorbed
