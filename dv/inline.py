"""AST-level absorption of helpers that are unknown to the rules.

A method whose name is not in KNOWN_METHODS (i.e. it did not exist when the rules were
written - typically the product of an extract-method refactoring) and that returns no
value is substituted for its statement-level calls `self.<helper>(args)` in the methods
of the same class, and then hidden from the model.  Every rule - whether it walks the
syntax tree of a function or its CFG - therefore sees the un-refactored shape.  Helpers
that return values are handled at CFG level (dv/cfg.py)."""
from __future__ import annotations

import ast
import copy

from .known_methods import KNOWN_METHODS


def _returns_value(fn: ast.FunctionDef) -> bool:
    for n in ast.walk(fn):
        if isinstance(n, ast.Return) and n.value is not None and not (
                isinstance(n.value, ast.Constant) and n.value.value is None):
            return True
        if isinstance(n, (ast.Yield, ast.YieldFrom, ast.Global, ast.Nonlocal)):
            return True
    return False


def _has_inner_return(fn: ast.FunctionDef) -> bool:
    """A bare `return` anywhere except as the very last statement cannot be spliced."""
    body = fn.body
    for i, st in enumerate(body):
        for n in ast.walk(st):
            if isinstance(n, ast.Return):
                if not (n is st and i == len(body) - 1):
                    return True
    return False


def absorb_helpers(model, packages=("diameter.node", "diameter.message._base",
                                    "diameter.message.avp.avp", "diameter.message.packer")):
    absorbed = []
    for mname, mod in model.modules.items():
        if not any(mname.startswith(p) for p in packages):
            continue
        for ci in mod.classes.values():
            for _ in range(2):          # helpers calling helpers
                cands = {}
                for f in list(ci.all_funcs):
                    fn = f.node
                    if f.name in KNOWN_METHODS or f.name.startswith("__") or fn.decorator_list:
                        continue
                    a = fn.args
                    if a.vararg or a.kwarg or a.kwonlyargs or a.posonlyargs or not a.args \
                            or a.args[0].arg != "self":
                        continue
                    if _returns_value(fn) or _has_inner_return(fn):
                        continue
                    cands[f.name] = f
                if not cands:
                    break
                progress = False
                for name, helper in cands.items():
                    sites, other_refs = [], 0
                    for f in ci.all_funcs:
                        if f is helper:
                            continue
                        for parent in ast.walk(f.node):
                            for fld in ("body", "orelse", "finalbody"):
                                blk = getattr(parent, fld, None)
                                if not isinstance(blk, list):
                                    continue
                                for i, st in enumerate(blk):
                                    if isinstance(st, ast.Expr) and isinstance(st.value, ast.Call) \
                                            and isinstance(st.value.func, ast.Attribute) \
                                            and st.value.func.attr == name \
                                            and isinstance(st.value.func.value, ast.Name) \
                                            and st.value.func.value.id == "self":
                                        sites.append((f, blk, i, st.value))
                        for n in ast.walk(f.node):
                            if isinstance(n, ast.Attribute) and n.attr == name:
                                other_refs += 1
                    # references from other classes / modules
                    ext = 0
                    for m2 in model.modules.values():
                        for n in ast.walk(m2.tree):
                            if isinstance(n, ast.Attribute) and n.attr == name:
                                ext += 1
                    if not sites or other_refs != len(sites) or ext != len(sites):
                        continue
                    ok = True
                    plans = []
                    for f, blk, i, call in sites:
                        body = _instantiate(helper.node, call, f.node)
                        if body is None:
                            ok = False
                            break
                        plans.append((blk, i, body))
                    if not ok:
                        continue
                    for blk, i, body in sorted(plans, key=lambda p: -p[1]):
                        blk[i:i + 1] = body
                    ci.all_funcs.remove(helper)
                    ci.methods.pop(name, None)
                    try:
                        ci.node.body.remove(helper.node)
                    except ValueError:
                        pass
                    absorbed.append(f"{ci.name}.{name}")
                    progress = True
                if not progress:
                    break
    return absorbed


def _instantiate(helper: ast.FunctionDef, call: ast.Call, caller: ast.FunctionDef):
    a = helper.args
    params = [x.arg for x in a.args][1:]
    if len(call.args) > len(params) or any(k.arg is None or k.arg not in params for k in call.keywords):
        return None
    binding = dict(zip(params, call.args))
    for k in call.keywords:
        binding[k.arg] = k.value
    defaults = dict(zip(params[len(params) - len(a.defaults):], a.defaults))
    for p in params:
        if p not in binding:
            if p not in defaults:
                return None
            binding[p] = defaults[p]
    for x in ast.walk(helper):
        if isinstance(x, ast.Name) and isinstance(x.ctx, ast.Store) and x.id in binding \
                and not (isinstance(binding[x.id], ast.Name) and binding[x.id].id == x.id):
            return None
    caller_names = {x.id for x in ast.walk(caller) if isinstance(x, ast.Name)}
    caller_names |= {x.arg for x in caller.args.args}
    locals_ = {x.id for x in ast.walk(helper) if isinstance(x, ast.Name) and isinstance(x.ctx, ast.Store)}
    locals_ |= {h.name for x in ast.walk(helper) if isinstance(x, ast.Try) for h in x.handlers if h.name}
    locals_ -= set(params)
    ren = {x: f"{x}__{helper.name.strip('_')}" for x in locals_ if x in caller_names}

    class Sub(ast.NodeTransformer):
        def visit_Name(self, node):
            if node.id in binding and not isinstance(node.ctx, ast.Store):
                return copy.deepcopy(binding[node.id])
            if node.id in ren:
                return ast.copy_location(ast.Name(id=ren[node.id], ctx=node.ctx), node)
            return node

        def visit_ExceptHandler(self, node):
            if node.name in ren:
                node.name = ren[node.name]
            self.generic_visit(node)
            return node
    body = [copy.deepcopy(st) for st in helper.body]
    # drop a docstring and a trailing bare return
    if body and isinstance(body[0], ast.Expr) and isinstance(body[0].value, ast.Constant) \
            and isinstance(body[0].value.value, str):
        body = body[1:]
    if body and isinstance(body[-1], ast.Return):
        body = body[:-1]
    body = [Sub().visit(st) for st in body]
    for st in body:
        ast.fix_missing_locations(st)
    return body or [ast.copy_location(ast.Pass(), call)]
