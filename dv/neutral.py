"""Behaviour-preserving whole-tree rewrites used by the invariance sweeps (thorough tier and
tools/neutral_sweep.py)."""
import ast
import os

class Renamer(ast.NodeTransformer):
    def visit_FunctionDef(self, node):
        params = {a.arg for a in node.args.args + node.args.kwonlyargs + node.args.posonlyargs}
        if node.args.vararg: params.add(node.args.vararg.arg)
        if node.args.kwarg: params.add(node.args.kwarg.arg)
        stored = set()
        glob = set()
        for n in ast.walk(node):
            if isinstance(n, ast.Name) and isinstance(n.ctx, ast.Store):
                stored.add(n.id)
            if isinstance(n, ast.ExceptHandler) and n.name:
                stored.add(n.name)
            if isinstance(n, (ast.Global, ast.Nonlocal)):
                glob |= set(n.names)
        # do not touch names used by nested functions/lambdas/comprehensions scoping issues
        nested = set()
        for n in ast.walk(node):
            if n is not node and isinstance(n, (ast.FunctionDef, ast.Lambda, ast.ClassDef)):
                for m in ast.walk(n):
                    if isinstance(m, ast.Name):
                        nested.add(m.id)
        ren = {x: x + "_rn" for x in stored - params - glob - nested if not x.startswith("__")}

        class R(ast.NodeTransformer):
            def visit_Name(s, n):
                if n.id in ren:
                    n.id = ren[n.id]
                return n
            def visit_ExceptHandler(s, n):
                if n.name in ren:
                    n.name = ren[n.name]
                s.generic_visit(n)
                return n
            def visit_FunctionDef(s, n):
                return n if n is not node else s.generic_visit(n) or n
            def visit_Lambda(s, n):
                return n
            def visit_ClassDef(s, n):
                return n
        R().generic_visit(node)
        self.generic_visit(node)
        return node


class NestIf(ast.NodeTransformer):
    def visit_If(self, node):
        self.generic_visit(node)
        if not node.orelse and isinstance(node.test, ast.BoolOp) and isinstance(node.test.op, ast.And):
            inner = node.body
            for v in reversed(node.test.values):
                inner = [ast.If(test=v, body=inner, orelse=[])]
            return ast.copy_location(inner[0], node)
        return node


class Passes(ast.NodeTransformer):
    def visit_FunctionDef(self, node):
        self.generic_visit(node)
        i = 1 if (node.body and isinstance(node.body[0], ast.Expr)
                  and isinstance(node.body[0].value, ast.Constant)
                  and isinstance(node.body[0].value.value, str)) else 0
        node.body.insert(i, ast.Expr(value=ast.Constant(value=None)))
        return node


class FlipCmp(ast.NodeTransformer):
    FLIP = {ast.Eq: ast.Eq, ast.NotEq: ast.NotEq, ast.Lt: ast.Gt, ast.Gt: ast.Lt,
            ast.LtE: ast.GtE, ast.GtE: ast.LtE}

    def visit_Compare(self, node):
        self.generic_visit(node)
        if len(node.ops) == 1 and type(node.ops[0]) in self.FLIP:
            return ast.copy_location(ast.Compare(
                left=node.comparators[0], ops=[self.FLIP[type(node.ops[0])]()],
                comparators=[node.left]), node)
        return node


class InvertIf(ast.NodeTransformer):
    def visit_If(self, node):
        self.generic_visit(node)
        if node.orelse and not (len(node.orelse) == 1 and isinstance(node.orelse[0], ast.If)):
            t = node.test
            nt = t.operand if isinstance(t, ast.UnaryOp) and isinstance(t.op, ast.Not) \
                else ast.UnaryOp(op=ast.Not(), operand=t)
            return ast.copy_location(ast.If(test=nt, body=node.orelse, orelse=node.body), node)
        return node


class InChain(ast.NodeTransformer):
    def visit_Compare(self, node):
        self.generic_visit(node)
        if len(node.ops) == 1 and isinstance(node.ops[0], (ast.In, ast.NotIn)) \
                and isinstance(node.comparators[0], ast.Tuple) and 1 < len(node.comparators[0].elts) <= 3 \
                and isinstance(node.left, (ast.Name, ast.Attribute)):
            eqs = [ast.Compare(left=node.left, ops=[ast.Eq()], comparators=[e])
                   for e in node.comparators[0].elts]
            r = ast.BoolOp(op=ast.Or(), values=eqs)
            if isinstance(node.ops[0], ast.NotIn):
                r = ast.UnaryOp(op=ast.Not(), operand=r)
            return ast.copy_location(r, node)
        return node


class DelToPop(ast.NodeTransformer):
    def visit_Delete(self, node):
        if len(node.targets) == 1 and isinstance(node.targets[0], ast.Subscript) \
                and not isinstance(node.targets[0].slice, ast.Slice):
            t = node.targets[0]
            call = ast.Call(func=ast.Attribute(value=t.value, attr="pop", ctx=ast.Load()),
                            args=[t.slice], keywords=[])
            return ast.copy_location(ast.Expr(value=call), node)
        return node


class Extract(ast.NodeTransformer):
    """Extract-method refactoring: a top-level compound statement of a method that contains no
    return/break/continue/yield and defines no local that is used outside of it is moved into
    a new private method of the same class, called with the locals it reads."""
    ONLY = None      # optional set of function names to restrict to
    SKIP = 0         # extract the (SKIP+1)-th eligible statement of each method

    def visit_ClassDef(self, cls):
        new_methods = []
        for fn in list(cls.body):
            if not isinstance(fn, ast.FunctionDef) or fn.decorator_list or not fn.args.args \
                    or fn.args.args[0].arg != "self" or fn.name.startswith("__"):
                continue
            if self.ONLY and fn.name not in self.ONLY:
                continue
            params = {a.arg for a in fn.args.args}
            skipped = 0
            for i, st in enumerate(fn.body):
                if not isinstance(st, (ast.If, ast.For, ast.With, ast.Try)):
                    continue
                if any(isinstance(x, (ast.Return, ast.Break, ast.Continue, ast.Yield, ast.YieldFrom,
                                      ast.Lambda, ast.FunctionDef, ast.NamedExpr))
                       for x in ast.walk(st)):
                    continue
                stored = {x.id for x in ast.walk(st) if isinstance(x, ast.Name) and isinstance(x.ctx, ast.Store)}
                stored |= {h.name for x in ast.walk(st) if isinstance(x, ast.Try) for h in x.handlers if h.name}
                others = [o for j, o in enumerate(fn.body) if j != i]
                used_outside = {x.id for o in others for x in ast.walk(o) if isinstance(x, ast.Name)}
                if stored & used_outside or stored & params:
                    continue
                if skipped < self.SKIP:
                    skipped += 1
                    continue
                loaded = []
                for x in ast.walk(st):
                    if isinstance(x, ast.Name) and isinstance(x.ctx, ast.Load) and x.id not in stored \
                            and x.id != "self" and x.id not in loaded:
                        # locals/params of the enclosing function only
                        if x.id in params or any(isinstance(y, ast.Name) and isinstance(y.ctx, ast.Store)
                                                 and y.id == x.id for y in ast.walk(fn)):
                            loaded.append(x.id)
                name = f"_x_{fn.name.strip('_')}_{i}"
                helper = ast.FunctionDef(
                    name=name,
                    args=ast.arguments(posonlyargs=[], args=[ast.arg(arg="self")] + [ast.arg(arg=a) for a in loaded],
                                       kwonlyargs=[], kw_defaults=[], defaults=[]),
                    body=[st], decorator_list=[], returns=None, type_params=[])
                call = ast.Expr(value=ast.Call(
                    func=ast.Attribute(value=ast.Name(id="self", ctx=ast.Load()), attr=name, ctx=ast.Load()),
                    args=[ast.Name(id=a, ctx=ast.Load()) for a in loaded], keywords=[]))
                fn.body[i] = ast.copy_location(call, st)
                new_methods.append(helper)
                break       # one extraction per method
        cls.body.extend(new_methods)
        return cls


class Extract2(Extract):
    SKIP = 1


class Extract3(Extract):
    SKIP = 2


class _BodyRewriter(ast.NodeTransformer):
    """Base for rewrites that replace one statement by several inside any statement list."""
    def rewrite(self, st, last, owner):
        return None

    def _list(self, stmts, owner):
        out = []
        for i, st in enumerate(stmts):
            r = self.rewrite(st, i == len(stmts) - 1, owner)
            out.extend(r if r is not None else [st])
        return out

    def generic_visit(self, node):
        super().generic_visit(node)
        for fld in ("body", "orelse", "finalbody"):
            v = getattr(node, fld, None)
            if isinstance(v, list) and v and isinstance(v[0], ast.stmt):
                setattr(node, fld, self._list(v, (node, fld)))
        return node


def _negate(t):
    if isinstance(t, ast.UnaryOp) and isinstance(t.op, ast.Not):
        return t.operand
    return ast.UnaryOp(op=ast.Not(), operand=t)


class EarlyReturn(_BodyRewriter):
    """Guard-clause refactoring: a trailing `if c: body` of a function becomes
    `if not c: return` followed by body."""
    def rewrite(self, st, last, owner):
        node, fld = owner
        if last and fld == "body" and isinstance(node, ast.FunctionDef) and isinstance(st, ast.If) \
                and not st.orelse and not any(isinstance(x, (ast.Yield, ast.YieldFrom)) for x in ast.walk(node)):
            g = ast.copy_location(ast.If(test=_negate(st.test), body=[ast.Return(value=None)], orelse=[]), st)
            return [g] + st.body
        return None


class EarlyContinue(_BodyRewriter):
    """A trailing `if c: body` of a for/while body becomes `if not c: continue` + body."""
    def rewrite(self, st, last, owner):
        node, fld = owner
        if last and fld == "body" and isinstance(node, (ast.For, ast.While)) and isinstance(st, ast.If) \
                and not st.orelse:
            g = ast.copy_location(ast.If(test=_negate(st.test), body=[ast.Continue()], orelse=[]), st)
            return [g] + st.body
        return None


class DeMorgan(ast.NodeTransformer):
    """not (a or b) -> not a and not b ;  not (a and b) -> not a or not b."""
    def visit_UnaryOp(self, node):
        self.generic_visit(node)
        if isinstance(node.op, ast.Not) and isinstance(node.operand, ast.BoolOp):
            b = node.operand
            op = ast.And() if isinstance(b.op, ast.Or) else ast.Or()
            return ast.copy_location(ast.BoolOp(op=op, values=[_negate(v) for v in b.values]), node)
        return node


class AugAssign(ast.NodeTransformer):
    """x += e  ->  x = x + e  for plain names and self.<attr> targets."""
    def visit_AugAssign(self, node):
        t = node.target
        if isinstance(t, ast.Name) or (isinstance(t, ast.Attribute) and isinstance(t.value, ast.Name)):
            import copy
            load = copy.deepcopy(t)
            load.ctx = ast.Load()
            return ast.copy_location(ast.Assign(
                targets=[t], value=ast.BinOp(left=load, op=node.op, right=node.value)), node)
        return node


def _pure_chain(e):
    while isinstance(e, ast.Attribute):
        e = e.value
    return isinstance(e, ast.Name)


class TmpVar(_BodyRewriter):
    """Introduce-variable refactoring: the first attribute-chain argument of a call statement
    is hoisted into a fresh local assigned immediately before the statement."""
    N = 0

    def rewrite(self, st, last, owner):
        call = None
        if isinstance(st, ast.Expr) and isinstance(st.value, ast.Call):
            call = st.value
        elif isinstance(st, ast.Assign) and isinstance(st.value, ast.Call):
            call = st.value
        elif isinstance(st, ast.Return) and isinstance(st.value, ast.Call):
            call = st.value
        if call is None or not isinstance(call.func, (ast.Attribute, ast.Name)):
            return None
        if isinstance(call.func, ast.Attribute) and not _pure_chain(call.func):
            return None
        for i, a in enumerate(call.args):
            if isinstance(a, ast.Starred):
                return None
            if isinstance(a, ast.Attribute) and _pure_chain(a):
                TmpVar.N += 1
                nm = f"_tv{TmpVar.N}"
                call.args[i] = ast.Name(id=nm, ctx=ast.Load())
                return [ast.copy_location(ast.Assign(targets=[ast.Name(id=nm, ctx=ast.Store())], value=a), st), st]
            if not isinstance(a, (ast.Constant, ast.Name)):
                return None       # keep the evaluation order of impure earlier arguments
        return None

    def generic_visit(self, node):
        if isinstance(node, ast.ClassDef):
            # class bodies: only descend into methods
            for b in node.body:
                if isinstance(b, ast.FunctionDef):
                    self.visit(b)
            return node
        if isinstance(node, ast.Module):
            for b in node.body:
                if isinstance(b, (ast.FunctionDef, ast.ClassDef)):
                    self.visit(b)
            return node
        return super().generic_visit(node)


class KwArgs(ast.NodeTransformer):
    """self.m(a, b) -> self.m(x=a, y=b) where every definition of m in the tree agrees on the
    names of its positional parameters (collected by the pre-pass)."""
    SIGS: dict = {}

    @classmethod
    def prepass(cls, root):
        sigs: dict = {}
        for dp, dn, fn in os.walk(root):
            for f in fn:
                if f.endswith(".py"):
                    for n in ast.walk(ast.parse(open(os.path.join(dp, f)).read())):
                        if isinstance(n, ast.FunctionDef) and n.args.args and n.args.args[0].arg == "self" \
                                and not n.args.posonlyargs and not n.decorator_list:
                            names = tuple(a.arg for a in n.args.args[1:])
                            sigs.setdefault(n.name, set()).add((names, n.args.vararg is not None))
        cls.SIGS = {k: next(iter(v))[0] for k, v in sigs.items() if len(v) == 1 and not next(iter(v))[1]}

    def visit_Call(self, node):
        self.generic_visit(node)
        f = node.func
        if isinstance(f, ast.Attribute) and isinstance(f.value, ast.Name) and f.value.id == "self" \
                and f.attr in self.SIGS and not f.attr.startswith("__") and node.args \
                and not any(isinstance(a, ast.Starred) for a in node.args):
            names = self.SIGS[f.attr]
            if len(node.args) <= len(names) and not ({k.arg for k in node.keywords} & set(names[:len(node.args)])):
                node.keywords = [ast.keyword(arg=names[i], value=a) for i, a in enumerate(node.args)] + node.keywords
                node.args = []
        return node


class LockIdiom(_BodyRewriter):
    """`with <lock>: body`  ->  `<lock>.acquire(); try: body; finally: <lock>.release()`."""
    def rewrite(self, st, last, owner):
        if isinstance(st, ast.With) and len(st.items) == 1 and st.items[0].optional_vars is None \
                and "lock" in ast.unparse(st.items[0].context_expr).lower() \
                and isinstance(st.items[0].context_expr, (ast.Attribute, ast.Name)):
            import copy
            lk = st.items[0].context_expr
            acq = ast.Expr(ast.Call(func=ast.Attribute(value=copy.deepcopy(lk), attr="acquire", ctx=ast.Load()),
                                    args=[], keywords=[]))
            rel = ast.Expr(ast.Call(func=ast.Attribute(value=copy.deepcopy(lk), attr="release", ctx=ast.Load()),
                                    args=[], keywords=[]))
            tr = ast.Try(body=st.body, handlers=[], orelse=[], finalbody=[rel])
            return [ast.copy_location(acq, st), ast.copy_location(tr, st)]
        return None


class ElseAfterJump(_BodyRewriter):
    """`if c: ...; return/continue/raise` followed by the rest  ->  `if c: ... else: rest`."""
    def _list(self, stmts, owner):
        for i, st in enumerate(stmts[:-1]):
            if isinstance(st, ast.If) and not st.orelse and st.body \
                    and isinstance(st.body[-1], (ast.Return, ast.Continue, ast.Raise, ast.Break)):
                rest = self._list(stmts[i + 1:], owner)
                st.orelse = rest
                return stmts[:i + 1]
        return stmts


class Ternary(_BodyRewriter):
    """`x = a if c else b`  ->  if c: x = a else: x = b."""
    def rewrite(self, st, last, owner):
        if isinstance(st, ast.Assign) and isinstance(st.value, ast.IfExp):
            import copy
            a = ast.Assign(targets=copy.deepcopy(st.targets), value=st.value.body)
            b = ast.Assign(targets=copy.deepcopy(st.targets), value=st.value.orelse)
            return [ast.copy_location(ast.If(test=st.value.test, body=[ast.copy_location(a, st)],
                                             orelse=[ast.copy_location(b, st)]), st)]
        return None


class RetVar(_BodyRewriter):
    """`return <call or operation>`  ->  `result_rv = <expr>; return result_rv`."""
    def rewrite(self, st, last, owner):
        if isinstance(st, ast.Return) and isinstance(st.value, (ast.Call, ast.BinOp, ast.Compare, ast.BoolOp)):
            a = ast.Assign(targets=[ast.Name(id="result_rv", ctx=ast.Store())], value=st.value)
            r = ast.Return(value=ast.Name(id="result_rv", ctx=ast.Load()))
            return [ast.copy_location(a, st), ast.copy_location(r, st)]
        return None


KINDS = {"unparse": None, "extract": Extract, "extract2": Extract2, "extract3": Extract3, "rename": Renamer, "nestif": NestIf, "passes": Passes,
         "flipcmp": FlipCmp, "invertif": InvertIf, "inchain": InChain, "deltopop": DelToPop,
         "earlyret": EarlyReturn, "earlycont": EarlyContinue, "demorgan": DeMorgan, "augassign": AugAssign,
         "tmpvar": TmpVar, "kwargs": KwArgs, "lockidiom": LockIdiom, "elsejump": ElseAfterJump,
         "ternary": Ternary, "retvar": RetVar}


def transform(root, kind):
    t0 = KINDS[kind]
    if t0 is not None and hasattr(t0, "prepass"):
        t0.prepass(root)
    for dp, dn, fn in os.walk(root):
        for f in fn:
            if not f.endswith(".py"):
                continue
            if kind.startswith("extract") and not (os.sep + "node" + os.sep in os.path.join(dp, f) or f in ("_base.py",)):
                continue
            p = os.path.join(dp, f)
            src = open(p).read()
            tree = ast.parse(src)
            if "__future__" in src and kind != "unparse":
                pass
            t = KINDS[kind]
            if t is not None:
                tree = t().visit(tree)
                ast.fix_missing_locations(tree)
            open(p, "w").write(ast.unparse(tree) + "\n")


