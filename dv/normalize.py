"""Canonical forms applied to every module's syntax tree before any rule runs.

The rules read call arguments positionally, assignments by their textual operands and
counters by their augmented assignments.  Five behaviour-preserving spellings of the same
program are therefore mapped onto the one the rules were written against:

  * `x = x + e`                      ->  `x += e`          (plain names and attribute chains)
  * `t = a.b.c` immediately followed by the single use of `t` as a call argument
                                     ->  the use site reads `a.b.c` (introduce-variable undone)
  * `self.m(p=a, q=b)`               ->  `self.m(a, b)`    when every definition of `m` in the
                                         package agrees on its positional parameter names

  * `t = e` immediately followed by `return t` (t used nowhere else)  ->  `return e`
  * `L.acquire()` immediately followed by `try: body finally: L.release()`  ->  `with L: body`

None of them changes what the analysed program does; each only undoes a refactoring that the
invariance sweeps (dv/neutral.py: augassign, tmpvar, kwargs, retvar, lockidiom) apply to the
whole tree.
"""
from __future__ import annotations

import ast
import copy


def _same(a: ast.AST, b: ast.AST) -> bool:
    return ast.dump(a) == ast.dump(b)


def _pure_chain(e: ast.AST) -> bool:
    while isinstance(e, ast.Attribute):
        e = e.value
    return isinstance(e, ast.Name)


class _Aug(ast.NodeTransformer):
    def visit_Assign(self, node: ast.Assign):
        self.generic_visit(node)
        if len(node.targets) == 1 and isinstance(node.targets[0], (ast.Name, ast.Attribute)) \
                and _pure_chain(node.targets[0]) and isinstance(node.value, ast.BinOp) \
                and isinstance(node.value.op, (ast.Add, ast.Sub, ast.Mult, ast.BitOr, ast.BitAnd)):
            t = copy.deepcopy(node.targets[0])
            t.ctx = ast.Load()
            if _same(t, node.value.left):
                return ast.copy_location(
                    ast.AugAssign(target=node.targets[0], op=node.value.op, value=node.value.right), node)
        return node


def _name_counts(fn: ast.AST) -> tuple[dict, dict]:
    stores: dict[str, int] = {}
    loads: dict[str, int] = {}
    for n in ast.walk(fn):
        if isinstance(n, ast.Name):
            d = stores if isinstance(n.ctx, (ast.Store, ast.Del)) else loads
            d[n.id] = d.get(n.id, 0) + 1
        elif isinstance(n, ast.arg):
            stores[n.arg] = stores.get(n.arg, 0) + 1
        elif isinstance(n, ast.ExceptHandler) and n.name:
            stores[n.name] = stores.get(n.name, 0) + 1
        elif isinstance(n, (ast.Global, ast.Nonlocal)):
            for x in n.names:
                stores[x] = stores.get(x, 0) + 2
    return stores, loads


def _call_of(st: ast.stmt):
    if isinstance(st, ast.Expr) and isinstance(st.value, ast.Call):
        return st.value
    if isinstance(st, (ast.Assign, ast.Return, ast.AnnAssign)) and isinstance(getattr(st, "value", None), ast.Call):
        return st.value
    return None


def _propagate_temps(fn: ast.FunctionDef):
    stores, loads = _name_counts(fn)

    def do_list(stmts: list[ast.stmt]):
        i = 0
        while i < len(stmts) - 1:
            st, nxt = stmts[i], stmts[i + 1]
            if isinstance(st, ast.Assign) and len(st.targets) == 1 and isinstance(st.targets[0], ast.Name) \
                    and isinstance(st.value, ast.Attribute) and _pure_chain(st.value):
                t = st.targets[0].id
                call = _call_of(nxt)
                if stores.get(t) == 1 and loads.get(t) == 1 and call is not None:
                    for k, a in enumerate(call.args):
                        if isinstance(a, ast.Name) and a.id == t:
                            # earlier arguments are evaluated after the temp in the rewritten
                            # order: only plain operands may precede it
                            if all(isinstance(b, (ast.Name, ast.Constant)) or _pure_chain(b)
                                   for b in call.args[:k]) and _pure_chain(call.func):
                                call.args[k] = ast.copy_location(copy.deepcopy(st.value), a)
                                del stmts[i]
                                i -= 1
                            break
            i += 1
        for st in stmts:
            for fld in ("body", "orelse", "finalbody"):
                sub = getattr(st, fld, None)
                if isinstance(sub, list) and sub and isinstance(sub[0], ast.stmt) \
                        and not isinstance(st, (ast.FunctionDef, ast.AsyncFunctionDef, ast.ClassDef)):
                    do_list(sub)
            if isinstance(st, ast.Try):
                for h in st.handlers:
                    do_list(h.body)
            if isinstance(st, ast.Match):
                for c in st.cases:
                    do_list(c.body)
    do_list(fn.body)


def _inline_return_temps(fn: ast.FunctionDef):
    """`t = <expr>` immediately followed by `return t`, t used nowhere else  ->  `return <expr>`
    (adjacent statements: evaluation order and exception behaviour are unchanged)."""
    stores, loads = _name_counts(fn)

    def do_list(stmts: list[ast.stmt]):
        i = 0
        while i < len(stmts) - 1:
            st, nxt = stmts[i], stmts[i + 1]
            if isinstance(st, ast.Assign) and len(st.targets) == 1 and isinstance(st.targets[0], ast.Name) \
                    and isinstance(nxt, ast.Return) and isinstance(nxt.value, ast.Name) \
                    and nxt.value.id == st.targets[0].id \
                    and stores.get(nxt.value.id) == 1 and loads.get(nxt.value.id) == 1:
                nxt.value = st.value
                del stmts[i]
                continue
            i += 1
        _recurse(stmts, do_list)
    do_list(fn.body)


def _recurse(stmts, do_list):
    for st in stmts:
        if isinstance(st, (ast.FunctionDef, ast.AsyncFunctionDef, ast.ClassDef)):
            continue
        for fld in ("body", "orelse", "finalbody"):
            sub = getattr(st, fld, None)
            if isinstance(sub, list) and sub and isinstance(sub[0], ast.stmt):
                do_list(sub)
        if isinstance(st, ast.Try):
            for h in st.handlers:
                do_list(h.body)
        if isinstance(st, ast.Match):
            for c in st.cases:
                do_list(c.body)


def _with_for_acquire(fn: ast.FunctionDef):
    """`L.acquire()` immediately followed by `try: body finally: L.release()` (no handlers, no
    else, nothing else in the finally)  ->  `with L: body`."""
    def do_list(stmts: list[ast.stmt]):
        i = 0
        while i < len(stmts) - 1:
            st, nxt = stmts[i], stmts[i + 1]
            if isinstance(st, ast.Expr) and isinstance(st.value, ast.Call) and not st.value.args \
                    and not st.value.keywords and isinstance(st.value.func, ast.Attribute) \
                    and st.value.func.attr == "acquire" and _pure_chain(st.value.func.value) \
                    and isinstance(nxt, ast.Try) and not nxt.handlers and not nxt.orelse \
                    and len(nxt.finalbody) == 1 and isinstance(nxt.finalbody[0], ast.Expr) \
                    and isinstance(nxt.finalbody[0].value, ast.Call) \
                    and isinstance(nxt.finalbody[0].value.func, ast.Attribute) \
                    and nxt.finalbody[0].value.func.attr == "release" \
                    and _same(nxt.finalbody[0].value.func.value, st.value.func.value):
                w = ast.With(items=[ast.withitem(context_expr=st.value.func.value, optional_vars=None)],
                             body=nxt.body)
                stmts[i:i + 2] = [ast.copy_location(w, st)]
                continue
            i += 1
        _recurse(stmts, do_list)
    do_list(fn.body)


def _functions(tree: ast.Module):
    """Function definitions of a module without walking its (possibly huge) data tables."""
    stack = list(tree.body)
    while stack:
        n = stack.pop()
        if isinstance(n, (ast.FunctionDef, ast.AsyncFunctionDef)):
            yield n
        elif isinstance(n, ast.ClassDef):
            stack.extend(n.body)
        elif isinstance(n, (ast.If, ast.Try)):
            stack.extend(getattr(n, "body", []))
            stack.extend(getattr(n, "orelse", []))


def _inline_prefix_temps(fn: ast.FunctionDef):
    """`p = f"{c.ident}:"` ... `k.startswith(p)`  ->  `k.startswith(f"{c.ident}:")`: a local bound
    once to a formatted string built from attribute chains, and read only as the argument of
    str.startswith / str.endswith, is a hoisted prefix; the predicates are put back in the spelling
    the rules know (the operands of the f-string are attribute chains of names that the function
    does not re-bind, so evaluating it later gives the same string)."""
    stores, loads = _name_counts(fn)
    par = {}
    for n in ast.walk(fn):
        for c in ast.iter_child_nodes(n):
            par[c] = n
    for st in [x for x in ast.walk(fn) if isinstance(x, ast.Assign)]:
        if not (len(st.targets) == 1 and isinstance(st.targets[0], ast.Name) and isinstance(st.value, ast.JoinedStr)):
            continue
        t = st.targets[0].id
        if stores.get(t) != 1:
            continue
        parts = [v.value for v in st.value.values if isinstance(v, ast.FormattedValue)]
        if not all(_pure_chain(p_) or isinstance(p_, ast.Name) for p_ in parts):
            continue
        roots = set()
        for p_ in parts:
            r = p_
            while isinstance(r, ast.Attribute):
                r = r.value
            if isinstance(r, ast.Name):
                roots.add(r.id)
        if any(stores.get(r, 0) > 1 for r in roots):
            continue
        uses = [n for n in ast.walk(fn) if isinstance(n, ast.Name) and n.id == t and isinstance(n.ctx, ast.Load)]
        ok = uses and all(isinstance(par.get(u), ast.Call) and isinstance(par[u].func, ast.Attribute)
                          and par[u].func.attr in ("startswith", "endswith") and u in par[u].args for u in uses)
        if not ok:
            continue
        for u in uses:
            c = par[u]
            c.args[c.args.index(u)] = ast.copy_location(copy.deepcopy(st.value), u)
        # the binding itself becomes a no-op expression statement (positions of the other
        # statements stay as they are)
        owner = par.get(st)
        for fld in ("body", "orelse", "finalbody"):
            blk = getattr(owner, fld, None)
            if isinstance(blk, list) and st in blk:
                blk[blk.index(st)] = ast.copy_location(ast.Pass(), st)


def _bool_pure(e: ast.AST) -> bool:
    if isinstance(e, ast.UnaryOp) and isinstance(e.op, ast.Not):
        return _bool_pure(e.operand)
    if isinstance(e, ast.BoolOp):
        return all(_bool_pure(v) for v in e.values)
    if isinstance(e, ast.Compare):
        return all(_pure_chain(x) or isinstance(x, (ast.Name, ast.Constant)) for x in [e.left] + list(e.comparators))
    return _pure_chain(e)


def _inline_flag_temps(fn: ast.FunctionDef):
    """`is_answer = not msg.header.is_request` ... `if is_answer:`  ->  `if not msg.header.is_request:`.
    A local bound once, at the top level of the function, to a boolean expression over attribute
    chains (not / and / or / comparisons; at least one `not` or comparison, so that plain aliases
    keep their names) that is read only inside tests, while the function neither re-binds the
    roots nor stores to the attributes, is a cached condition; the tests are spelled out again."""
    stores, loads = _name_counts(fn)
    stored_attrs = {ast.unparse(n) for n in ast.walk(fn) if isinstance(n, ast.Attribute)
                    and isinstance(n.ctx, (ast.Store, ast.Del))}
    par = {}
    for n in ast.walk(fn):
        for c in ast.iter_child_nodes(n):
            par[c] = n
    for st in list(fn.body):
        if not (isinstance(st, ast.Assign) and len(st.targets) == 1 and isinstance(st.targets[0], ast.Name)):
            continue
        v = st.value
        # (only the negation of an attribute read - `not msg.header.is_request` -: compound
        # conditions keep their names, which the outcome rules of the handlers refer to)
        if not (isinstance(v, ast.UnaryOp) and isinstance(v.op, ast.Not) and _pure_chain(v.operand)):
            continue
        t = st.targets[0].id
        if stores.get(t) != 1:
            continue
        chains = [ast.unparse(x) for x in ast.walk(v) if isinstance(x, ast.Attribute)]
        roots = {x.id for x in ast.walk(v) if isinstance(x, ast.Name)}
        if any(stores.get(r, 0) > 1 for r in roots) or any(
                s_ == c_ or c_.startswith(s_ + ".") for s_ in stored_attrs for c_ in chains):
            continue
        uses = [n for n in ast.walk(fn) if isinstance(n, ast.Name) and n.id == t and isinstance(n.ctx, ast.Load)]

        def in_test(u):
            cur = u
            while cur in par:
                p_ = par[cur]
                if isinstance(p_, (ast.If, ast.While, ast.IfExp)) and cur is p_.test:
                    return True
                if isinstance(p_, (ast.BoolOp, ast.UnaryOp)):
                    cur = p_
                    continue
                return False
            return False
        if not uses or not all(in_test(u) for u in uses):
            continue
        for u in uses:
            p_ = par[u]
            new = ast.copy_location(copy.deepcopy(v), u)
            for fld, val in ast.iter_fields(p_):
                if val is u:
                    setattr(p_, fld, new)
                elif isinstance(val, list) and u in val:
                    val[val.index(u)] = new
        fn.body[fn.body.index(st)] = ast.copy_location(ast.Pass(), st)


class _GetDefaultMembership(ast.NodeTransformer):
    """`x in D.get(k, ())`  ->  `k in D and x in D[k]`  (and `not in` accordingly): membership in
    the value of a key that may be absent, spelled through an empty default."""
    def visit_Compare(self, node):
        self.generic_visit(node)
        if len(node.ops) == 1 and isinstance(node.ops[0], (ast.In, ast.NotIn)):
            c = node.comparators[0]
            if isinstance(c, ast.Call) and isinstance(c.func, ast.Attribute) and c.func.attr == "get" \
                    and len(c.args) == 2 and not c.keywords and _pure_chain(c.func.value) \
                    and (_pure_chain(c.args[0]) or isinstance(c.args[0], ast.Name)):
                d = c.args[1]
                empty = (isinstance(d, (ast.Tuple, ast.List, ast.Set)) and not d.elts) \
                    or (isinstance(d, ast.Dict) and not d.keys) \
                    or (isinstance(d, ast.Call) and isinstance(d.func, ast.Name)
                        and d.func.id in ("tuple", "list", "set", "frozenset", "dict") and not d.args)
                if empty:
                    has = ast.Compare(left=copy.deepcopy(c.args[0]), ops=[ast.In()], comparators=[copy.deepcopy(c.func.value)])
                    sub = ast.Subscript(value=copy.deepcopy(c.func.value), slice=copy.deepcopy(c.args[0]), ctx=ast.Load())
                    inner = ast.Compare(left=node.left, ops=[ast.In()], comparators=[sub])
                    both = ast.BoolOp(op=ast.And(), values=[has, inner])
                    out = both if isinstance(node.ops[0], ast.In) else ast.UnaryOp(op=ast.Not(), operand=both)
                    for y in ast.walk(out):
                        ast.copy_location(y, node)
                    return out
        return node


CODEC_FUNCS = ("as_packed", "as_bytes")


def _propagate_self_reads(fn: ast.FunctionDef):
    """`length = self.length` ... `length | flags << 24`  ->  `self.length | self.flags << 24` in the
    encoders the layout rules read (as_packed / as_bytes): a local bound once, at the top level of
    the function, to an attribute chain rooted at `self` that the function does not store to is a
    cached read; its uses are put back so that the layout is spelled over the object's fields."""
    if fn.name not in CODEC_FUNCS:
        return
    stores, loads = _name_counts(fn)
    stored_attrs = set()
    for n in ast.walk(fn):
        if isinstance(n, ast.Attribute) and isinstance(n.ctx, (ast.Store, ast.Del)):
            stored_attrs.add(ast.unparse(n))
        if isinstance(n, ast.Call) and isinstance(n.func, ast.Name) and n.func.id == "setattr":
            return
    for st in list(fn.body):
        if not (isinstance(st, ast.Assign) and len(st.targets) == 1 and isinstance(st.targets[0], ast.Name)
                and isinstance(st.value, ast.Attribute) and _pure_chain(st.value)):
            continue
        root = st.value
        while isinstance(root, ast.Attribute):
            root = root.value
        t = st.targets[0].id
        if not (isinstance(root, ast.Name) and root.id == "self") or stores.get(t) != 1:
            continue
        txt = ast.unparse(st.value)
        if any(s_ == txt or s_.startswith(txt + ".") or txt.startswith(s_ + ".") for s_ in stored_attrs):
            continue

        class Sub(ast.NodeTransformer):
            def visit_Name(self, node):
                if node.id == t and isinstance(node.ctx, ast.Load):
                    return ast.copy_location(copy.deepcopy(st.value), node)
                return node
        for other in fn.body:
            if other is not st:
                Sub().visit(other)
        fn.body[fn.body.index(st)] = ast.copy_location(ast.Pass(), st)


def normalize_tree(tree: ast.Module):
    """Local canonical forms (no cross-module knowledge needed)."""
    for fn in _functions(tree):
        _Aug().visit(fn)
        for f_ in [fn] + [x for x in ast.walk(fn) if x is not fn and isinstance(x, ast.FunctionDef)]:
            _propagate_temps(f_)
            _inline_return_temps(f_)
            _with_for_acquire(f_)
            _inline_prefix_temps(f_)
            _propagate_self_reads(f_)
            _inline_flag_temps(f_)
        _GetDefaultMembership().visit(fn)
        ast.fix_missing_locations(fn)


def positionalize_calls(model):
    """Keyword arguments that name leading positional parameters become positional, when all
    definitions of the called name in the package agree on those parameter names."""
    sigs: dict[str, set] = {}
    for mod in model.modules.values():
        for c_ in mod.classes.values():
            sigs.setdefault(c_.name, set()).add(((), False))
        for n in (x for fn in _functions(mod.tree) for x in ast.walk(fn)):
            if isinstance(n, ast.FunctionDef):
                a = n.args
                names = [x.arg for x in a.args]
                if names and names[0] in ("self", "cls"):
                    names = names[1:]
                ok = not a.posonlyargs and a.vararg is None
                sigs.setdefault(n.name, set()).add((tuple(names), ok))
            elif isinstance(n, ast.ClassDef):
                # a class call goes to __init__/dataclass fields: leave constructor calls alone
                sigs.setdefault(n.name, set()).add(((), False))
    uniq = {k: next(iter(v))[0] for k, v in sigs.items() if len(v) == 1 and next(iter(v))[1]}
    changed = 0
    for mod in model.modules.values():
        for n in (x for fn in _functions(mod.tree) for x in ast.walk(fn)):
            if not isinstance(n, ast.Call) or not n.keywords:
                continue
            f = n.func
            nm = f.attr if isinstance(f, ast.Attribute) else f.id if isinstance(f, ast.Name) else None
            if nm is None or nm not in uniq or nm.startswith("__"):
                continue
            if any(isinstance(a, ast.Starred) for a in n.args) or any(k.arg is None for k in n.keywords):
                continue
            names = uniq[nm]
            while len(n.args) < len(names):
                want = names[len(n.args)]
                kw = [k for k in n.keywords if k.arg == want]
                if not kw:
                    break
                n.args.append(kw[0].value)
                n.keywords.remove(kw[0])
                changed += 1
    return changed
