"""Lockset helpers: store sites of a field, lexical lock protection, call-site
protection of helper methods."""
from __future__ import annotations

import ast
from typing import Iterator, NamedTuple

from .srcmodel import FuncInfo, SourceModel
from . import astutil as A


class Site(NamedTuple):
    func: FuncInfo
    stmt: ast.stmt          # the storing / calling statement
    node: ast.AST           # the precise target / call node
    receiver: str           # text of the object whose field is stored / method called

    @property
    def where(self) -> str:
        return f"{self.func.module.relpath}:{self.stmt.lineno}"


def _stmt_of(par: dict, n: ast.AST) -> ast.stmt:
    while not isinstance(n, ast.stmt):
        n = par[n]
    return n


def store_sites(model: SourceModel, attr: str) -> list[Site]:
    """Every store  <recv>.<attr> = / op= / : T =  and  setattr(<recv>, '<attr>', v)."""
    out = []
    for f in model.all_funcs():
        par = None
        for n in A.walk_no_nested(f.node):
            tgt = None
            if isinstance(n, (ast.Assign, ast.AugAssign, ast.AnnAssign)):
                for t in A.store_targets(n):
                    for tt in ([t] if not isinstance(t, (ast.Tuple, ast.List)) else t.elts):
                        if isinstance(tt, ast.Attribute) and tt.attr == attr:
                            out.append(Site(f, n, tt, A.dotted(tt.value) or ast.unparse(tt.value)))
            elif isinstance(n, ast.Call) and A.call_name(n) == "setattr" and len(n.args) == 3 \
                    and isinstance(n.args[1], ast.Constant) and n.args[1].value == attr:
                par = par or A.parents(f.node)
                out.append(Site(f, _stmt_of(par, n), n, ast.unparse(n.args[0])))
            elif isinstance(n, ast.Delete):
                for t in n.targets:
                    if isinstance(t, ast.Attribute) and t.attr == attr:
                        out.append(Site(f, n, t, ast.unparse(t.value)))
    return out


def call_sites(model: SourceModel, method: str) -> list[Site]:
    """Every call  <recv>.<method>(...)  in the package (by method name)."""
    out = []
    for f in model.all_funcs():
        par = None
        for n in A.walk_no_nested(f.node):
            if isinstance(n, ast.Call) and isinstance(n.func, ast.Attribute) \
                    and n.func.attr == method:
                par = par or A.parents(f.node)
                out.append(Site(f, _stmt_of(par, n), n, ast.unparse(n.func.value)))
            elif isinstance(n, ast.Call) and isinstance(n.func, ast.Name) and n.func.id == method:
                par = par or A.parents(f.node)
                out.append(Site(f, _stmt_of(par, n), n, ""))
    return out


def method_refs(model: SourceModel, method: str) -> list[Site]:
    """References to <recv>.<method> that are not direct calls (target=..., aliases)."""
    out = []
    for f in model.all_funcs():
        par = A.parents(f.node)
        for n in A.walk_no_nested(f.node):
            if isinstance(n, ast.Attribute) and n.attr == method and isinstance(n.ctx, ast.Load):
                p = par.get(n)
                if isinstance(p, ast.Call) and p.func is n:
                    continue
                out.append(Site(f, _stmt_of(par, n), n, ast.unparse(n.value)))
    return out


def held_locks(func: FuncInfo, node: ast.AST) -> list[str]:
    """Texts of lock expressions lexically held at *node*:  ``with R.lock:`` and the
    ``R.lock.acquire(); try: ... finally: R.lock.release()`` bracket."""
    par = A.parents(func.node)
    held = []
    n = node
    while n in par:
        p = par[n]
        if isinstance(p, (ast.With, ast.AsyncWith)) and any(n is b for b in p.body):
            for it in p.items:
                held.append(ast.unparse(it.context_expr))
        if isinstance(p, ast.Try) and any(n is b for b in p.body) and p.finalbody:
            released = []
            for st in p.finalbody:
                if isinstance(st, ast.Expr) and isinstance(st.value, ast.Call) \
                        and A.call_name(st.value).endswith(".release"):
                    released.append(ast.unparse(st.value.func.value))
            if released:
                # the statement before the try (same block) must acquire
                pp = par.get(p)
                for fld in ("body", "orelse", "finalbody"):
                    blk = getattr(pp, fld, None)
                    if isinstance(blk, list) and p in blk:
                        i = blk.index(p)
                        if i > 0:
                            prev = blk[i - 1]
                            if isinstance(prev, ast.Expr) and isinstance(prev.value, ast.Call) \
                                    and A.call_name(prev.value).endswith(".acquire"):
                                lk = ast.unparse(prev.value.func.value)
                                if lk in released:
                                    held.append(lk)
        n = p
    return held


def protected(model: SourceModel, site: Site, lock_attr: str, depth: int = 3,
              _seen=None) -> tuple[bool, str]:
    """Is the store/call at *site* executed with <site.receiver>.<lock_attr> held?

    Either lexically, or because the enclosing function is a method all of
    whose call sites (by name, package wide) hold <their receiver>.<lock_attr>."""
    want = f"{site.receiver}.{lock_attr}"
    if want in held_locks(site.func, site.node):
        return True, f"lexically inside `with {want}`"
    if depth <= 0 or site.func.cls is None or site.receiver != "self":
        return False, f"not inside `with {want}`"
    _seen = _seen or set()
    if site.func.qualname in _seen:
        return False, "recursive"
    _seen = _seen | {site.func.qualname}
    callers = call_sites(model, site.func.name)
    refs = method_refs(model, site.func.name)
    if refs:
        return False, (f"{site.func.qualname} is also referenced as a value at "
                       f"{refs[0].where} (unknown callers)")
    if not callers:
        return False, f"not inside `with {want}` and {site.func.qualname} has no call site"
    for c in callers:
        ok, why = protected(model, c, lock_attr, depth - 1, _seen)
        if not ok:
            return False, (f"{site.func.qualname} is called at {c.where} "
                           f"({c.func.qualname}) where {why}")
    return True, (f"all {len(callers)} call site(s) of {site.func.qualname} hold "
                  f"<receiver>.{lock_attr}")


def lock_fields(model: SourceModel, cls) -> dict[str, str]:
    """attr -> constructor text for  self.<attr> = threading.Lock()/RLock()  in __init__."""
    out = {}
    init = cls.methods.get("__init__")
    if init is None:
        return out
    for n in A.walk_no_nested(init.node):
        if isinstance(n, (ast.Assign, ast.AnnAssign)) and getattr(n, "value", None) is not None \
                and isinstance(n.value, ast.Call) \
                and A.call_name(n.value) in ("threading.Lock", "threading.RLock", "Lock", "RLock"):
            for t in A.store_targets(n):
                if isinstance(t, ast.Attribute) and A.dotted(t.value) == "self":
                    out[t.attr] = A.call_name(n.value)
    return out
