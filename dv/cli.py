"""Command line:  python -m dv.cli C07 [--tier quick|thorough] [--src DIR]"""
from __future__ import annotations

import argparse
import importlib
import os
import sys

from .report import run_property

DEFAULT_SRC = os.environ.get("DV_SRC", "/repo/src")


def main(argv=None) -> int:
    ap = argparse.ArgumentParser()
    ap.add_argument("prop")
    ap.add_argument("--tier", default=os.environ.get("VERIF_TIER") or "quick",
                    choices=["quick", "thorough"])
    ap.add_argument("--src", default=DEFAULT_SRC)
    ap.add_argument("--evidence", default=None)
    args = ap.parse_args(argv)
    prop = args.prop.upper()
    try:
        mod = importlib.import_module(f"dv.rules.{prop.lower()}")
    except ModuleNotFoundError:
        print(f"ANALYSIS-ERROR property={prop} - no rule module")
        return 2
    return run_property(prop, mod.run, args.src, args.tier, mod.EXPLANATION,
                        mod.ASSUMPTIONS, args.evidence)


if __name__ == "__main__":
    sys.exit(main())
