"""Raise-set (exception escape) inference.

Compositional and syntax-directed, fix-point over resolved calls.  Value
model: arbitrary *values* of the annotated types; ill-typed values
(AttributeError on None, KeyError on unchecked subscripts), MemoryError and
RecursionError are outside the model.  Library calls contribute the
documented value-dependent raisers listed in PRIMITIVES.
"""
from __future__ import annotations

import ast
from typing import Iterable

from .srcmodel import ClassInfo, FuncInfo, Module, SourceModel
from . import astutil as A

# ---------------------------------------------------------------------------
# exception hierarchy
# ---------------------------------------------------------------------------
REGISTRIES = {"AVP_DICTIONARY", "AVP_VENDOR_DICTIONARY", "all_commands"}

BUILTIN_BASES = {
    "BaseException": None,
    "Exception": "BaseException",
    "ArithmeticError": "Exception", "OverflowError": "ArithmeticError",
    "ZeroDivisionError": "ArithmeticError",
    "LookupError": "Exception", "KeyError": "LookupError", "IndexError": "LookupError",
    "ValueError": "Exception", "UnicodeError": "ValueError",
    "UnicodeDecodeError": "UnicodeError", "UnicodeEncodeError": "UnicodeError",
    "TypeError": "Exception", "AttributeError": "Exception", "NameError": "Exception",
    "RuntimeError": "Exception", "NotImplementedError": "RuntimeError",
    "RecursionError": "RuntimeError",
    "OSError": "Exception", "TimeoutError": "OSError", "ConnectionError": "OSError",
    "BlockingIOError": "OSError", "InterruptedError": "OSError",
    "EOFError": "Exception", "StopIteration": "Exception", "AssertionError": "Exception",
    "struct.error": "Exception", "queue.Empty": "Exception", "queue.Full": "Exception",
    "json.JSONDecodeError": "ValueError", "MemoryError": "Exception",
    "ANY": "Exception",       # an exception of unknown type (user callback)
}
ALIASES = {"socket.error": "OSError", "IOError": "OSError", "EnvironmentError": "OSError",
           "socket.timeout": "TimeoutError", "error": "struct.error",
           "Empty": "queue.Empty", "Full": "queue.Full"}

# attribute-call primitives: method name -> raises (when the receiver is not a
# repository object)
METHOD_PRIMS = {
    "decode": {"UnicodeDecodeError"},
    "encode": {"UnicodeEncodeError"},
    "recv": {"OSError"}, "send": {"OSError"}, "sctp_send": {"OSError"},
    "connect": {"OSError"}, "connectx": {"OSError"}, "accept": {"OSError"}, "accept": {"OSError"},
    "bind": {"OSError"}, "bindx": {"OSError"}, "listen": {"OSError"},
    "getsockname": {"OSError"}, "getsockopt": {"OSError"}, "setsockopt": {"OSError"},
    "getpeername": {"OSError"}, "shutdown": {"OSError"},
    "setblocking": {"OSError"},
    "fromhex": {"ValueError"},
    "to_bytes": {"OverflowError"},
    "index": {"ValueError"}, "remove": {"ValueError"},
    "popleft": {"IndexError"},
    "unpack": {"struct.error"}, "unpack_from": {"struct.error"}, "iter_unpack": {"struct.error"},
    "pack": {"struct.error"}, "pack_into": {"struct.error"},
}
# queue get/put only raise with block=False / timeout
FUNC_PRIMS = {
    "struct.unpack": {"struct.error"}, "struct.pack": {"struct.error"},
    "struct.unpack_from": {"struct.error"}, "struct.pack_into": {"struct.error"},
    "socket.inet_ntop": {"ValueError", "OSError"},
    "socket.inet_pton": {"OSError", "ValueError"},
    "socket.inet_aton": {"OSError"}, "socket.inet_ntoa": {"OSError"},
    "socket.socket": {"OSError"},
    "datetime.datetime.fromtimestamp": {"OverflowError", "OSError", "ValueError"},
    "datetime.fromtimestamp": {"OverflowError", "OSError", "ValueError"},
    "datetime.datetime.utcfromtimestamp": {"OverflowError", "OSError", "ValueError"},
    "bytes.fromhex": {"ValueError"},
    "int.from_bytes": set(),
    "os.write": {"OSError"}, "os.read": {"OSError"}, "os.pipe": {"OSError"},
    "select.select": {"OSError", "ValueError"},
    "json.loads": {"ValueError"}, "json.dumps": {"TypeError", "ValueError"},
    "ipaddress.ip_address": {"ValueError"},
}
TS_MIN, TS_MAX = -62135596800 + 86400, 253402300799 - 86400   # datetime range minus a day
STRUCT_RANGES = {"B": (0, 2 ** 8 - 1), "b": (-2 ** 7, 2 ** 7 - 1), "H": (0, 2 ** 16 - 1),
                 "h": (-2 ** 15, 2 ** 15 - 1), "I": (0, 2 ** 32 - 1), "L": (0, 2 ** 32 - 1),
                 "i": (-2 ** 31, 2 ** 31 - 1), "l": (-2 ** 31, 2 ** 31 - 1),
                 "Q": (0, 2 ** 64 - 1), "q": (-2 ** 63, 2 ** 63 - 1)}
USER_CALLBACKS = {"handle_request", "handle_answer", "_request_handler",
                  "peer_route_select_func"}
NORAISE_PREFIXES = ("self.logger.", "logger.", "self.connection_logger.",
                    "self.stats_logger.", "self.msg_dump.", "logging.")


FAULT_METHOD_PRIMS = {
    "recv": {"OSError"}, "send": {"OSError"}, "sctp_send": {"OSError"},
    "connect": {"OSError"}, "connectx": {"OSError"}, "accept": {"OSError"},
    "decode": {"UnicodeDecodeError"},
    "start": {"RuntimeError"},
    # (getsockopt(SOL_SOCKET, SO_ERROR) on a descriptor that select() has just returned does not
    # fail; the other calls do - ENOTCONN on a socket that never connected or was reset)
    "getpeername": {"OSError"}, "getsockname": {"OSError"},
    "setsockopt": {"OSError"}, "shutdown": {"OSError"},
}
FAULT_FUNC_PRIMS = {"socket.socket": {"OSError"}, "sctp.sctpsocket_tcp": {"OSError"},
                    "sctp.sctpsocket": {"OSError"}}
CODEC_ENTRIES = {"as_bytes", "from_bytes"}


class Effects:
    def __init__(self, model: SourceModel, profile: str = "full", base: "Effects | None" = None):
        """profile 'full': value model for the codec (C04).
        profile 'faults': the fault model of C14 - transport faults, user callbacks,
        explicit raises of the node package, queue time-outs, Thread.start, and the
        codec only through its entry points as_bytes / from_bytes (their 'full'
        summaries); building messages from well-typed internal values is assumed
        not to raise."""
        self.model = model
        self.profile = profile
        self.base = base
        self.callable_attrs: dict[str, list[FuncInfo]] = {}
        self.summary: dict[int, frozenset[str]] = {}
        self.funcs: list[FuncInfo] = list(model.all_funcs())
        self.by_name: dict[str, list[FuncInfo]] = {}
        self.setters_by_name: dict[str, list[FuncInfo]] = {}
        self.props_by_name: dict[str, list[FuncInfo]] = {}
        for f in self.funcs:
            if f.cls is not None:
                if f.is_setter:
                    self.setters_by_name.setdefault(f.name, []).append(f)
                elif f.is_property:
                    self.props_by_name.setdefault(f.name, []).append(f)
                else:
                    self.by_name.setdefault(f.name, []).append(f)
        self._collect_callable_attrs()
        self.exc_classes: dict[str, str | None] = dict(BUILTIN_BASES)
        for c in model.all_classes():
            for b in c.node.bases:
                bn = self.canon(ast.unparse(b))
                if bn in self.exc_classes and c.name not in self.exc_classes:
                    self.exc_classes[c.name] = bn
        # second pass for repo classes deriving from repo exception classes
        changed = True
        while changed:
            changed = False
            for c in model.all_classes():
                if c.name in self.exc_classes:
                    continue
                for b in c.node.bases:
                    bn = self.canon(ast.unparse(b))
                    if bn in self.exc_classes:
                        self.exc_classes[c.name] = bn
                        changed = True
        self.trace: dict[int, dict[str, tuple]] = {}   # func id -> exc -> (where, via)
        self.trace_all: dict[int, dict[str, list]] = {}  # every note, for per-statement chains
        self.suppressed: list[tuple] = []
        self.iterations = 0
        self._solve()

    def _collect_callable_attrs(self):
        """<recv>.<attr> = self.<method> | <function>  makes  x.<attr>(...)  a call of it."""
        for f in self.funcs:
            for n in A.walk_no_nested(f.node):
                if not isinstance(n, (ast.Assign, ast.AnnAssign)) or getattr(n, "value", None) is None:
                    continue
                v = n.value
                tgt = None
                if isinstance(v, ast.Attribute) and isinstance(v.value, ast.Name) \
                        and v.value.id == "self" and f.cls is not None:
                    tgt = self.model.find_method(f.cls, v.attr)
                elif isinstance(v, ast.Name):
                    b = f.module.lookup(v.id)
                    if b is not None and b.kind == "func":
                        tgt = b.module.funcs.get(b.node.name)
                if tgt is None:
                    continue
                for t in A.store_targets(n):
                    if isinstance(t, ast.Attribute) and t.attr not in self.by_name:
                        lst = self.callable_attrs.setdefault(t.attr, [])
                        if tgt not in lst:
                            lst.append(tgt)

    def _in_message_pkg(self, g: FuncInfo) -> bool:
        return ".message" in g.module.name

    def _callee(self, g: FuncInfo) -> set[str]:
        """Summary of a resolved callee under the active profile."""
        if self.profile == "faults" and self._in_message_pkg(g):
            if g.name in CODEC_ENTRIES and self.base is not None:
                return set(self.base.raises(g))
            return set()
        return set(self.raises(g))

    # -- hierarchy -----------------------------------------------------------
    def canon(self, name: str) -> str:
        name = ALIASES.get(name, name)
        if name.startswith("builtins."):
            name = name[9:]
        return name

    def is_sub(self, a: str, b: str) -> bool:
        a, b = self.canon(a), self.canon(b)
        if b == "BaseException":
            return True
        seen = 0
        while a is not None and seen < 20:
            if a == b:
                return True
            a = self.exc_classes.get(a, "Exception" if a not in ("BaseException",) else None)
            if a == "Exception" and b == "Exception":
                return True
            seen += 1
        return False

    def caught_by(self, exc: str, handler_types: list[str]) -> bool:
        if exc == "ANY":
            return any(h in ("Exception", "BaseException") for h in handler_types)
        return any(self.is_sub(exc, h) for h in handler_types)

    def handler_types(self, h: ast.ExceptHandler) -> list[str]:
        if h.type is None:
            return ["BaseException"]
        if isinstance(h.type, ast.Tuple):
            return [self.canon(ast.unparse(e)) for e in h.type.elts]
        return [self.canon(ast.unparse(h.type))]

    # -- fix point -----------------------------------------------------------
    def _solve(self):
        for f in self.funcs:
            self.summary[id(f.node)] = frozenset()
        for it in range(30):
            self.iterations = it + 1
            changed = False
            for f in self.funcs:
                new = frozenset(self._func_raises(f))
                if new != self.summary[id(f.node)]:
                    self.summary[id(f.node)] = new
                    changed = True
            if not changed:
                break

    def raises(self, f: FuncInfo) -> frozenset[str]:
        return self.summary.get(id(f.node), frozenset())

    def why_at(self, f: FuncInfo, exc: str, lineno: int, depth: int = 6) -> list[str]:
        """Like why(), but starting from the note recorded for the statement at *lineno*."""
        recs = [r for r in self.trace_all.get(id(f.node), {}).get(exc, [])
                if r[0].rsplit(":", 1)[-1] == str(lineno)]
        if not recs:
            return self.why(f, exc, depth)
        where, what, via = recs[0]
        out = [f"{where}: {what}"]
        if via is not None:
            out += self.why(via, exc, depth - 1)
        return out

    def why(self, f: FuncInfo, exc: str, depth: int = 6) -> list[str]:
        """Call chain from f down to the primitive that raises exc."""
        out = []
        cur = f
        for _ in range(depth):
            t = self.trace.get(id(cur.node), {}).get(exc)
            if t is None:
                break
            where, what, via = t
            out.append(f"{where}: {what}")
            if via is None:
                break
            cur = via
        return out

    # -- per function --------------------------------------------------------
    def _func_raises(self, f: FuncInfo) -> set[str]:
        if self.profile == "faults" and self._in_message_pkg(f):
            return set()
        self._cur = f
        self._cur_trace = self.trace.setdefault(id(f.node), {})
        body = self._block(f.node.body, f, caught=None)
        # decorators defined in the repository transform the summary
        for d in reversed(f.node.decorator_list):
            dn = ast.unparse(d)
            df = None
            if isinstance(d, ast.Name):
                b = f.module.lookup(d.id)
                if b is not None and b.kind == "func":
                    df = b.module.funcs.get(b.node.name)
            if df is not None:
                body = self._apply_decorator(df, body, f)
        return body

    def _apply_decorator(self, deco: FuncInfo, inner: set[str], f: FuncInfo) -> set[str]:
        params = [a.arg for a in deco.node.args.args]
        if not params:
            return inner
        wrapped = params[0]
        wrappers = [n for n in deco.node.body if isinstance(n, ast.FunctionDef)]
        if not wrappers:
            return inner
        w = wrappers[0]
        save = (self._cur, self._cur_trace)
        self._subst = (wrapped, inner)
        try:
            return self._block(w.body, f, caught=None)
        finally:
            self._subst = None
            self._cur, self._cur_trace = save

    _subst = None

    def _note(self, f: FuncInfo, node: ast.AST, exc: Iterable[str], what: str, via=None):
        for e in exc:
            rec = (f"{f.module.relpath}:{getattr(node, 'lineno', 0)}", what, via)
            self._cur_trace.setdefault(e, rec)
            allr = self.trace_all.setdefault(id(f.node), {}).setdefault(e, [])
            if rec not in allr:
                allr.append(rec)

    def _block(self, stmts: list[ast.stmt], f: FuncInfo, caught) -> set[str]:
        out: set[str] = set()
        for st in stmts:
            out |= self._stmt(st, f, caught)
        return out

    def _stmt(self, st: ast.stmt, f: FuncInfo, caught) -> set[str]:
        if isinstance(st, (ast.FunctionDef, ast.AsyncFunctionDef, ast.ClassDef)):
            return set()
        if isinstance(st, ast.Raise):
            out = set()
            if st.exc is None:
                out = set(caught or {"ANY"})
                self._note(f, st, out, "re-raise")
            else:
                out |= self._expr(st.exc, f)
                e = st.exc
                if isinstance(e, ast.Call):
                    e = e.func
                nm = self.canon(ast.unparse(e))
                if isinstance(e, ast.Name) and caught is not None and nm not in self.exc_classes:
                    # raise e  (the handler variable)
                    out |= set(caught)
                    self._note(f, st, caught, "re-raise of caught exception")
                else:
                    out.add(nm)
                    self._note(f, st, [nm], f"raise {nm}")
            return out
        if isinstance(st, ast.Try):
            body = self._block(st.body, f, caught)
            remaining = set(body)
            out = set()
            for h in st.handlers:
                types = self.handler_types(h)
                got = {e for e in remaining if self.caught_by(e, types)}
                remaining -= got
                # an "ANY" exception may also be of the handler's type
                if "ANY" in body and "ANY" not in got:
                    got = got | {"ANY"} if any(t not in ("Exception", "BaseException")
                                               for t in types) and False else got
                out |= self._block(h.body, f, got or set(types))
            out |= remaining
            out |= self._block(st.orelse, f, caught)
            out |= self._block(st.finalbody, f, caught)
            out |= self._unbound_in_handlers(st, f)
            return out
        if isinstance(st, (ast.If, ast.While)):
            if isinstance(st, ast.If) and self._dead_by_default(st.test, f):
                # the branch needs an optional argument that no call in the package supplies
                return self._block(st.orelse, f, caught)
            return (self._expr(st.test, f) | self._block(st.body, f, caught)
                    | self._block(st.orelse, f, caught))
        if isinstance(st, (ast.For, ast.AsyncFor)):
            out = (self._expr(st.iter, f) | self._block(st.body, f, caught)
                   | self._block(st.orelse, f, caught))
            tgt = self._live_iter_target(st.iter)
            if tgt is not None and self._resizes(st.body, tgt):
                out.add("RuntimeError")
                self._note(f, st, ["RuntimeError"],
                           f"`{tgt}` is resized while being iterated (dictionary changed size during iteration)")
            return out
        if isinstance(st, (ast.With, ast.AsyncWith)):
            out = set()
            for it in st.items:
                out |= self._expr(it.context_expr, f)
            return out | self._block(st.body, f, caught)
        if isinstance(st, ast.Match):
            out = self._expr(st.subject, f)
            for c in st.cases:
                if c.guard is not None:
                    out |= self._expr(c.guard, f)
                out |= self._block(c.body, f, caught)
            return out
        if isinstance(st, ast.Assert):
            return {"AssertionError"} | self._expr(st.test, f)
        out = set()
        # attribute stores hitting a repository property setter
        for t in A.store_targets(st):
            if isinstance(t, ast.Attribute):
                out |= self._setter(t, f)
        for child in ast.iter_child_nodes(st):
            if isinstance(child, ast.expr):
                out |= self._expr(child, f)
        return out

    def _dead_by_default(self, test: ast.expr, f: FuncInfo) -> bool:
        """The test starts with `p is not None` (or `p`) for a parameter p of *f* whose default is
        None and that no call in the analysed package supplies (matched by the function's name -
        for __init__ by the class's name -, so a same-named function that does get the argument
        keeps the branch alive).  Inside the package the branch never runs; what a user's own call
        with that argument raises is raised to the user at that call."""
        t = test
        if isinstance(t, ast.BoolOp) and isinstance(t.op, ast.And):
            t = t.values[0]
        name = None
        if isinstance(t, ast.Compare) and len(t.ops) == 1 and isinstance(t.ops[0], ast.IsNot) \
                and isinstance(t.left, ast.Name) and isinstance(t.comparators[0], ast.Constant) \
                and t.comparators[0].value is None:
            name = t.left.id
        elif isinstance(t, ast.Name):
            name = t.id
        if name is None:
            return False
        a = f.node.args
        allp = a.posonlyargs + a.args
        defaults = dict(zip([x.arg for x in allp][len(allp) - len(a.defaults):], a.defaults))
        defaults.update({k.arg: d for k, d in zip(a.kwonlyargs, a.kw_defaults) if d is not None})
        d = defaults.get(name)
        if not (isinstance(d, ast.Constant) and d.value is None):
            return False
        if any(isinstance(x, ast.Name) and x.id == name and isinstance(x.ctx, ast.Store) for x in ast.walk(f.node)):
            return False
        cache = self.__dict__.setdefault("_supplied", {})
        key = (f, name)
        if key not in cache:
            fname = f.cls.name if (f.cls is not None and f.name == "__init__") else f.name
            pos = [x.arg for x in allp]
            idx = pos.index(name) - (1 if pos and pos[0] in ("self", "cls") else 0) if name in pos else None
            supplied = False
            for m in self.model.modules.values():
                for c in ast.walk(m.tree):
                    if not isinstance(c, ast.Call):
                        continue
                    fn = c.func
                    cn = fn.id if isinstance(fn, ast.Name) else fn.attr if isinstance(fn, ast.Attribute) else None
                    if cn != fname:
                        continue
                    if any(k.arg == name or k.arg is None for k in c.keywords) \
                            or any(isinstance(x, ast.Starred) for x in c.args) \
                            or (idx is not None and len(c.args) > idx and not (
                                isinstance(c.args[idx], ast.Constant) and c.args[idx].value is None)):
                        supplied = True
                        break
                if supplied:
                    break
            cache[key] = supplied
        return not cache[key]

    def _unbound_in_handlers(self, st: ast.Try, f: FuncInfo) -> set[str]:
        """Definite assignment on the error path: an except / finally clause that reads a local
        whose only bindings sit in the try body, at or behind a statement that can raise into
        that clause, raises UnboundLocalError instead of doing its work."""
        fn = f.node
        params = {a.arg for a in ast.walk(fn.args) if isinstance(a, ast.arg)}
        bound_in_try: dict[str, int] = {}
        for i, b in enumerate(st.body):
            for n in ast.walk(b):
                if isinstance(n, ast.Name) and isinstance(n.ctx, ast.Store):
                    bound_in_try.setdefault(n.id, i)
        if not bound_in_try:
            return set()
        inside = {id(n) for n in ast.walk(st)}
        elsewhere = set(params)
        for n in ast.walk(fn):
            if id(n) in inside:
                continue
            if isinstance(n, ast.Name) and isinstance(n.ctx, ast.Store):
                elsewhere.add(n.id)
            elif isinstance(n, (ast.Global, ast.Nonlocal)):
                elsewhere |= set(n.names)
            elif isinstance(n, ast.ExceptHandler) and n.name:
                elsewhere.add(n.name)
            elif isinstance(n, (ast.Import, ast.ImportFrom)):
                elsewhere |= {(a.asname or a.name).split(".")[0] for a in n.names}
        out: set[str] = set()
        clauses = [(h, h.body) for h in st.handlers] + ([(None, st.finalbody)] if st.finalbody else [])
        raising_upto: dict[int, set[str]] = {}
        for h, body in clauses:
            stored_here = {n.id for b in body for n in ast.walk(b)
                           if isinstance(n, ast.Name) and isinstance(n.ctx, ast.Store)}
            comp_bound = {n.id for b in body for c in ast.walk(b)
                          if isinstance(c, ast.comprehension) for n in ast.walk(c.target)
                          if isinstance(n, ast.Name)}
            for b in body:
                for n in ast.walk(b):
                    if not (isinstance(n, ast.Name) and isinstance(n.ctx, ast.Load)):
                        continue
                    nm = n.id
                    if nm not in bound_in_try or nm in elsewhere or nm in stored_here \
                            or nm in comp_bound or (h is not None and nm == h.name):
                        continue
                    k = bound_in_try[nm]
                    if k not in raising_upto:
                        saved = self._cur_trace
                        self._cur_trace = {}
                        raising_upto[k] = self._block(st.body[:k + 1], f, None)
                        self._cur_trace = saved
                    r = raising_upto[k]
                    if h is not None:
                        types = self.handler_types(h)
                        r = {e for e in r if self.caught_by(e, types)}
                    if r:
                        out.add("UnboundLocalError")
                        self._note(f, n, ["UnboundLocalError"],
                                   f"`{nm}` is bound only inside the try body (statement {k + 1}); "
                                   f"{sorted(r)[0]} raised at or before that statement reaches this "
                                   f"clause with `{nm}` unbound")
        return out

    @staticmethod
    def _live_iter_target(it: ast.expr):
        e = it
        if isinstance(e, ast.Call) and isinstance(e.func, ast.Attribute) \
                and e.func.attr in ("items", "keys", "values") and not e.args:
            e = e.func.value
        elif isinstance(e, ast.Call):
            return None            # list(...), sorted(...), reversed(...) are snapshots / other
        if isinstance(e, (ast.Name, ast.Attribute)):
            return ast.unparse(e)
        return None

    @staticmethod
    def _resizes(body, tgt: str) -> bool:
        for st in body:
            for n in ast.walk(st):
                if isinstance(n, ast.Delete) and any(
                        isinstance(t, ast.Subscript) and ast.unparse(t.value) == tgt for t in n.targets):
                    return True
                if isinstance(n, ast.Call) and isinstance(n.func, ast.Attribute) \
                        and n.func.attr in ("pop", "popitem", "clear", "remove", "discard", "add") \
                        and ast.unparse(n.func.value) == tgt:
                    return True
        return False

    def _registry_subscript(self, n: ast.Subscript, f: FuncInfo) -> set[str]:
        """KeyError for  REG[k]  /  REG[v][k]  on a module-level dict of the package unless the
        key's membership is established on every path (or the error is caught)."""
        base = n.value
        while isinstance(base, ast.Subscript):
            base = base.value
        if not isinstance(base, ast.Name) or isinstance(n.slice, ast.Slice):
            return set()
        if self._is_local(base.id, f):
            return set()
        if self.profile == "faults":
            return set()
        if base.id not in REGISTRIES:
            # any other module-level dict of the package (VENDORS, ...) read with a key that is
            # not one of its literal keys
            b = f.module.lookup(base.id)
            v = getattr(b.node, "value", None) if b is not None and b.kind == "assign" else None
            if not isinstance(v, (ast.Dict, ast.DictComp)) or n.value is not base:
                return set()
            if isinstance(v, ast.Dict):
                k = self.model.try_fold(n.slice, f.module, f.cls)
                keys = [self.model.try_fold(x, b.module) for x in v.keys if x is not None]
                if k is not None and k in keys:
                    return set()
        from .cfg import cfg_of
        from .atoms import Atomizer, must_facts
        try:
            g = cfg_of(f)
        except Exception:
            return set()
        node = [x for x in g.nodes if x.kind in ("stmt", "test") and any(y is n for y in x.walk())]
        if not node:
            return set()
        at = Atomizer(self.model, f.module, f.cls)
        facts = must_facts(g, at, node[0])
        key, cont = ast.unparse(n.slice), ast.unparse(n.value)
        if (key, "in-expr", cont, True) in facts:
            return set()
        if (key, "in-expr", cont, False) in facts:
            return set()       # unreachable for missing keys in the other sense: store follows
        self._note(f, n, ["KeyError"], f"{cont}[{key}] without a membership test")
        return {"KeyError"}

    # -- expressions -----------------------------------------------------------
    def _expr(self, e: ast.AST, f: FuncInfo) -> set[str]:
        out: set[str] = set()
        for n in A.walk_no_nested(e):
            if isinstance(n, ast.Call):
                out |= self._call(n, f)
                out |= self._getattr2(n, f)
            elif isinstance(n, ast.Attribute) and isinstance(n.ctx, ast.Load):
                out |= self._prop_load(n, f)
                out |= self._optional_local(n, f)
            elif isinstance(n, ast.Subscript) and isinstance(n.ctx, ast.Load):
                out |= self._registry_subscript(n, f)
                out |= self._buffer_index(n, f)
            elif isinstance(n, (ast.Compare, ast.BinOp)):
                out |= self._optional_operand(n, f)
                if isinstance(n, ast.BinOp):
                    out |= self._mixed_concat(n, f)
            elif isinstance(n, ast.Name) and isinstance(n.ctx, ast.Load):
                out |= self._unresolved_name(n, f)
        for n in A.walk_no_nested(e):
            if isinstance(n, ast.Call):
                out |= self._optional_receiver(n, f)
        return out

    def _mixed_concat(self, n: ast.BinOp, f: FuncInfo) -> set[str]:
        """TypeError of `x + "text"` (or `x + b"bytes"`) where an enclosing isinstance test says
        that x may be of the other kind: `isinstance(x, (str, bytes))` admits both, the literal
        fits one."""
        if self.profile == "faults" or not isinstance(n.op, ast.Add):
            return set()
        lit, other = (n.right, n.left) if isinstance(n.right, ast.Constant) else (n.left, n.right)
        if not isinstance(lit, ast.Constant) or not isinstance(lit.value, (str, bytes)):
            return set()
        root = other
        while isinstance(root, ast.Subscript):
            root = root.value
        if not isinstance(root, ast.Name):
            return set()
        clash = "bytes" if isinstance(lit.value, str) else "str"
        par = A.parents(f.node)
        cur = n
        while cur in par:
            p_ = par[cur]
            if isinstance(p_, (ast.If, ast.IfExp)) and (cur is getattr(p_, "body", None) or (
                    isinstance(getattr(p_, "body", None), list) and any(cur is b for b in p_.body))):
                for t in ast.walk(p_.test):
                    if isinstance(t, ast.Call) and A.call_name(t) == "isinstance" and len(t.args) == 2 \
                            and isinstance(t.args[0], ast.Name) and t.args[0].id == root.id:
                        kinds = {ast.unparse(e) for e in (t.args[1].elts if isinstance(t.args[1], ast.Tuple)
                                                          else [t.args[1]])}
                        if clash in kinds or (clash == "bytes" and "bytearray" in kinds):
                            self._note(f, n, {"TypeError"}, f"`{ast.unparse(n)[:50]}`: {root.id} may be "
                                       f"{clash} here (isinstance test admits {sorted(kinds)})")
                            return {"TypeError"}
            cur = p_
        return set()

    def _getattr2(self, c: ast.Call, f: FuncInfo) -> set[str]:
        """AttributeError of `getattr(obj, "name")` without a default, unless a dominating
        `hasattr(obj, "name")` test (if / elif / conditional expression / `and` chain) or the
        class of `self` establishes the attribute."""
        if self.profile == "faults" or not (isinstance(c.func, ast.Name) and c.func.id == "getattr"):
            return set()
        if len(c.args) != 2 or c.keywords or not isinstance(c.args[1], ast.Constant) \
                or not isinstance(c.args[1].value, str):
            return set()
        want, name = ast.unparse(c.args[0]), c.args[1].value
        par = A.parents(f.node)

        def conj(t):
            if isinstance(t, ast.BoolOp) and isinstance(t.op, ast.And):
                for v in t.values:
                    yield from conj(v)
            else:
                yield t

        def is_has(t):
            return isinstance(t, ast.Call) and A.call_name(t) == "hasattr" and len(t.args) == 2 \
                and ast.unparse(t.args[0]) == want and isinstance(t.args[1], ast.Constant) \
                and t.args[1].value == name
        cur = c
        while cur in par:
            p_ = par[cur]
            if isinstance(p_, (ast.If, ast.While)) and any(cur is b for b in p_.body) \
                    and any(is_has(t) for t in conj(p_.test)):
                return set()
            if isinstance(p_, ast.IfExp) and cur is p_.body and any(is_has(t) for t in conj(p_.test)):
                return set()
            if isinstance(p_, ast.BoolOp) and isinstance(p_.op, ast.And) and cur in p_.values \
                    and any(is_has(t) for t in p_.values[:p_.values.index(cur)]):
                return set()
            if isinstance(p_, (ast.If, ast.While)) and any(cur is b for b in p_.orelse):
                # else-branch of `if not hasattr(...)`
                t = p_.test
                if isinstance(t, ast.UnaryOp) and isinstance(t.op, ast.Not) and is_has(t.operand):
                    return set()
            cur = p_
        if want == "self" and f.cls is not None:
            for k in self.model.mro(f.cls):
                if name in k.class_assigns or name in k.methods:
                    return set()
                for m in k.all_funcs:
                    for x in A.walk_no_nested(m.node):
                        if isinstance(x, ast.Attribute) and isinstance(x.ctx, ast.Store) \
                                and x.attr == name and A.dotted(x.value) == "self":
                            return set()
        self._note(f, c, {"AttributeError"}, f"getattr({want}, {name!r}) without default and without a "
                                             f"hasattr() test on the way")
        return {"AttributeError"}

    def _unresolved_name(self, n: ast.Name, f: FuncInfo) -> set[str]:
        """NameError: a global the module's namespace does not bind (e.g. a constant that a
        `from .peer import *` no longer brings along because it left the exporter's `__all__`)."""
        if self.profile == "faults":
            return set()
        key = id(f.node)
        cache = self.__dict__.setdefault("_unresolved", {})
        if key not in cache:
            from .names import unresolved_names
            cache[key] = {id(x): nm for nm, x in unresolved_names(f)}
            cache[key]["names"] = {nm for nm, _ in unresolved_names(f)}
        if n.id in cache[key]["names"]:
            self._note(f, n, {"NameError"}, f"`{n.id}` resolves to nothing in {f.module.name}")
            return {"NameError"}
        return set()

    def _optional_receiver(self, c: ast.Call, f: FuncInfo) -> set[str]:
        """AttributeError for a method call on an AVP attribute of a typed message (None when
        the AVP is absent; hasattr() is no guard - the attribute always exists)."""
        if self.profile == "faults":
            return set()
        fn = c.func
        if not (isinstance(fn, ast.Attribute) and isinstance(fn.value, ast.Attribute)
                and isinstance(fn.value.value, ast.Name)):
            return set()
        o = fn.value
        if o.attr in ("header", "avps") or o.attr.startswith("_"):
            return set()
        if o.value.id not in [a.arg for a in f.node.args.args]:
            return set()
        from .typesx import expr_type
        try:
            t = expr_type(self.model, f, o.value)
        except Exception:
            return set()
        if isinstance(t, ClassInfo) and self._is_message_class(t) and not self._none_guarded(o, c, f) \
                and self.model.find_method(t, o.attr) is None:
            self._note(f, c, ["AttributeError"], f"`{ast.unparse(o)}` is None when the AVP is absent")
            return {"AttributeError"}
        return set()

    def _optional_operand(self, n: ast.AST, f: FuncInfo) -> set[str]:
        """TypeError for ordering comparisons / arithmetic on an attribute of a received typed
        message: every AVP attribute is None when the peer left the AVP out."""
        if self.profile == "faults":
            return set()
        if isinstance(n, ast.Compare):
            if not any(isinstance(o, (ast.Lt, ast.Gt, ast.LtE, ast.GtE)) for o in n.ops):
                return set()
            operands = [n.left] + list(n.comparators)
        else:
            if isinstance(n.op, (ast.Mod,)) and isinstance(n.left, ast.Constant):
                return set()
            operands = [n.left, n.right]
        from .typesx import expr_type
        for o in operands:
            if isinstance(o, ast.Attribute) and isinstance(o.value, ast.Name) and not o.attr.startswith("__"):
                try:
                    t0 = expr_type(self.model, f, o.value)
                except Exception:
                    t0 = None
                if isinstance(t0, ClassInfo) and not self._is_message_class(t0) and o.value.id != "self" \
                        and self._optional_field(t0, o.attr) and not self._none_guarded(o, n, f):
                    self._note(f, n, ["TypeError"], f"`{ast.unparse(o)}` is None until it is set "
                               f"({t0.name}.__init__ stores None)")
                    return {"TypeError"}
            if isinstance(o, ast.Attribute) and isinstance(o.value, ast.Name) \
                    and o.value.id in [a.arg for a in f.node.args.args]:
                try:
                    t = expr_type(self.model, f, o.value)
                except Exception:
                    continue
                if isinstance(t, ClassInfo) and "message" in t.module.name and o.attr not in ("header",) \
                        and not o.attr.startswith("_") \
                        and self._is_message_class(t) and not self._none_guarded(o, n, f):
                    self._note(f, n, ["TypeError"], f"`{ast.unparse(o)}` is None when the AVP is absent")
                    return {"TypeError"}
        return set()

    def _optional_local(self, n: ast.Attribute, f: FuncInfo) -> set[str]:
        """AttributeError for `x.attr` where x may be None by the function's own account:
        (a) x is (the single-assignment local holding) the result of a one-argument `.get(k)` -
        a mapping lookup that answers None for a missing key - and no test of x guards the use;
        (b) the function itself tests `x is None` / `x is not None` somewhere (its stated belief
        that x can be None) and this use is not under such a test (Engler's contradiction rule).
        Not a question of received values: evaluated in the fault profile too."""
        base = n.value

        def is_get(e):
            return (isinstance(e, ast.Call) and isinstance(e.func, ast.Attribute) and e.func.attr == "get"
                    and len(e.args) == 1 and not e.keywords
                    and not any(w in ast.unparse(e.func.value).lower() for w in ("queue", "environ")))
        if is_get(base):
            self._note(f, n, ["AttributeError"], f"`{ast.unparse(base)[:60]}` is None for a missing key")
            return {"AttributeError"}
        if not isinstance(base, ast.Name):
            return set()
        und = self._undeclared_attr(n, f)
        if und:
            return und
        info = self._optional_names(f).get(base.id)
        if info is None:
            return set()
        if self._name_guarded(base.id, n, f) or self._flow_guarded(base.id, n, f):
            return set()
        self._note(f, n, ["AttributeError"], f"`{base.id}` can be None here ({info})")
        return {"AttributeError"}

    def _undeclared_attr(self, n: ast.Attribute, f: FuncInfo) -> set[str]:
        """AttributeError for `p.attr` where p is a parameter annotated with the base class
        `Message` and no class on Message's MRO defines `attr` (and none has __getattr__): the
        attribute exists on typed subclasses only - an UndefinedMessage (a command without a python
        class) has it only when the AVP was received.  A test that mentions p (hasattr, isinstance)
        counts as a guard."""
        base = n.value
        if self.profile == "faults" or base.id in ("self", "cls"):
            return set()
        arg = [a for a in f.node.args.args + f.node.args.kwonlyargs if a.arg == base.id]
        if not arg or arg[0].annotation is None:
            return set()
        from .typesx import ann_type
        try:
            t = ann_type(self.model, f.module, arg[0].annotation)
        except Exception:
            return set()
        if not isinstance(t, ClassInfo) or t.name != "Message" or "message" not in t.module.name:
            return set()
        cache = self.__dict__.setdefault("_declattrs", {})
        if t not in cache:
            names: set[str] = set()
            dyn = False
            for c in self.model.mro(t):
                if not hasattr(c, "methods"):
                    continue
                names |= set(c.methods) | set(c.setters) | set(c.class_assigns) | set(c.annotations)
                dyn = dyn or "__getattr__" in c.methods
                for g in c.all_funcs:
                    for x in ast.walk(g.node):
                        if isinstance(x, ast.Attribute) and isinstance(x.ctx, ast.Store) \
                                and isinstance(x.value, ast.Name) and x.value.id == "self":
                            names.add(x.attr)
            cache[t] = (names, dyn)
        names, dyn = cache[t]
        if dyn or n.attr in names or n.attr.startswith("__"):
            return set()
        if self._name_guarded(base.id, n, f):
            return set()
        self._note(f, n, ["AttributeError"], f"`{ast.unparse(n)}`: class {t.name} defines no `{n.attr}` "
                   f"(a message of a command without a python class has it only when the AVP was sent)")
        return {"AttributeError"}

    def _optional_names(self, f: FuncInfo) -> dict:
        cache = self.__dict__.setdefault("_optnames", {})
        if f in cache:
            return cache[f]
        assigns: dict[str, list] = {}
        tested: dict[str, int] = {}
        for x in A.walk_no_nested(f.node):
            if isinstance(x, (ast.Assign, ast.AnnAssign)) and getattr(x, "value", None) is not None:
                for t in A.store_targets(x):
                    if isinstance(t, ast.Name):
                        assigns.setdefault(t.id, []).append(x.value)
                    elif isinstance(t, (ast.Tuple, ast.List)):
                        for el in t.elts:
                            if isinstance(el, ast.Name):
                                assigns.setdefault(el.id, []).append(None)
            elif isinstance(x, (ast.For, ast.comprehension)):
                for el in ast.walk(x.target):
                    if isinstance(el, ast.Name):
                        assigns.setdefault(el.id, []).append(None)
            elif isinstance(x, ast.Compare) and len(x.ops) == 1 and isinstance(x.ops[0], (ast.Is, ast.IsNot)) \
                    and isinstance(x.left, ast.Name) and isinstance(x.comparators[0], ast.Constant) \
                    and x.comparators[0].value is None:
                tested.setdefault(x.left.id, x.lineno)
        out = {}
        for name, vals in assigns.items():
            if len(vals) == 1 and vals[0] is not None and isinstance(vals[0], ast.Call) \
                    and isinstance(vals[0].func, ast.Attribute) and vals[0].func.attr == "get" \
                    and len(vals[0].args) == 1 and not vals[0].keywords \
                    and not any(w in ast.unparse(vals[0].func.value).lower() for w in ("queue", "environ")):
                out[name] = f"assigned from `{ast.unparse(vals[0])[:50]}`, None for a missing key"
        for name, vals in assigns.items():
            if name in out or len(vals) != 1 or not isinstance(vals[0], ast.Call):
                continue
            try:
                cands = self.resolve_call(vals[0], f)
            except Exception:
                cands = []
            if cands and all(self._may_return_none(g) for g in cands):
                out[name] = f"{cands[0].qualname}() returns None on some path"
        for name, ln in tested.items():
            # tested for None by this function; only names bound once (or parameters): a re-bound
            # name would need flow-sensitivity
            if name in out:
                continue
            nb = len(assigns.get(name, []))
            is_param = name in [a.arg for a in f.node.args.args + f.node.args.kwonlyargs]
            if (nb == 1 and not is_param) or (nb == 0 and is_param):
                out[name] = f"the function tests it for None at line {ln}"
        cache[f] = out
        return out

    def _may_return_none(self, g: FuncInfo) -> bool:
        """A repository function with both a valued return and a path that yields None
        (`return None`, bare `return`, or falling off the end)."""
        cache = self.__dict__.setdefault("_retnone", {})
        if g in cache:
            return cache[g]
        rets = [x for x in A.walk_no_nested(g.node) if isinstance(x, ast.Return)]
        valued = [r for r in rets if r.value is not None and not (
            isinstance(r.value, ast.Constant) and r.value.value is None)]
        none = [r for r in rets if r not in valued]
        is_gen = any(isinstance(x, (ast.Yield, ast.YieldFrom)) for x in A.walk_no_nested(g.node))

        def completes(stmts) -> bool:
            if not stmts:
                return True
            last = stmts[-1]
            if isinstance(last, (ast.Return, ast.Raise)):
                return False
            if isinstance(last, ast.If):
                return completes(last.body) or completes(last.orelse)
            if isinstance(last, ast.While) and isinstance(last.test, ast.Constant) and last.test.value \
                    and not any(isinstance(x, ast.Break) for x in ast.walk(last)):
                return False
            if isinstance(last, ast.Try):
                return completes(last.finalbody) if last.finalbody and not completes(last.finalbody) else (
                    completes(last.orelse or last.body) or any(completes(h.body) for h in last.handlers))
            if isinstance(last, ast.With):
                return completes(last.body)
            return True
        r = bool(valued) and not is_gen and not g.is_property and (bool(none) or completes(g.node.body))
        cache[g] = r
        return r

    def _flow_guarded(self, name: str, n: ast.AST, f: FuncInfo) -> bool:
        """Flow-sensitive second opinion: on every path to the statement that holds the use, a
        test has established that *name* is set (`is not None`, truthy, isinstance)."""
        try:
            from .cfg import cfg_of
            from .atoms import Atomizer, must_facts
            cache = self.__dict__.setdefault("_flowcfg", {})
            if f not in cache:
                g = cfg_of(f, inline=False)
                cache[f] = (g, Atomizer(self.model, f.module, getattr(f, "cls", None)))
            g, at = cache[f]
            holders = [x for x in g.nodes if x.kind in ("stmt", "test", "iter", "with") and x.ast is not None
                       and any(y is n for e in (x.own_exprs() if x.kind in ("iter", "with") else [x.ast])
                               for y in ast.walk(e))]
            if not holders:
                return False
            for h in holders:
                fs = must_facts(g, at, h)
                if not any(f_[0] == name and ((f_[1] == "is" and f_[2] is None and f_[3] is False)
                                              or (f_[1] == "truthy" and f_[3] is True)
                                              or (str(f_[0]).startswith(f"isinstance({name}") and f_[3] is True))
                           for f_ in fs) and not any(
                        str(f_[0]).replace(" ", "").startswith(f"isinstance({name},") and f_[3] is True for f_ in fs):
                    return False
            return True
        except Exception:
            return True         # cannot decide: no claim

    def _name_guarded(self, name: str, n: ast.AST, f: FuncInfo) -> bool:
        """A test that mentions *name* encloses the use, precedes it in an `and`/`or` chain or a
        conditional expression, or is a guard clause (a test mentioning the name whose body leaves
        or re-binds) earlier in an enclosing block; or the use is in an except/else of a try whose
        body mentions it (conservative: any mention of the name in a controlling test counts)."""
        import re as _re
        pat = _re.compile(r"\b" + _re.escape(name) + r"\b")
        par = A.parents(f.node)
        cur = n
        while cur in par:
            p_ = par[cur]
            if isinstance(p_, (ast.If, ast.While, ast.IfExp)) and cur is not p_.test:
                if pat.search(ast.unparse(p_.test)):
                    return True
            if isinstance(p_, ast.BoolOp) and cur in p_.values:
                idx = p_.values.index(cur)
                if any(pat.search(ast.unparse(v)) for v in p_.values[:idx]):
                    return True
            if isinstance(p_, ast.comprehension) and any(pat.search(ast.unparse(i)) for i in p_.ifs):
                return True
            if isinstance(p_, (ast.ListComp, ast.SetComp, ast.GeneratorExp, ast.DictComp)):
                if any(pat.search(ast.unparse(i)) for g_ in p_.generators for i in g_.ifs):
                    return True
            if isinstance(p_, ast.Assert):
                return True
            for fld in ("body", "orelse", "finalbody"):
                blk = getattr(p_, fld, None)
                if isinstance(blk, list) and cur in blk:
                    for prev in blk[:blk.index(cur)]:
                        if isinstance(prev, ast.If) and pat.search(ast.unparse(prev.test)):
                            leaves = prev.body and isinstance(prev.body[-1], (ast.Return, ast.Raise, ast.Continue, ast.Break))
                            rebinds = any(isinstance(t, ast.Name) and t.id == name
                                          for st in ast.walk(prev) if isinstance(st, (ast.Assign, ast.AnnAssign))
                                          for t in A.store_targets(st))
                            if leaves or rebinds:
                                return True
                        if isinstance(prev, ast.Assert) and pat.search(ast.unparse(prev.test)):
                            return True
            cur = p_
        return False

    def _optional_field(self, ci: ClassInfo, attr: str) -> bool:
        """The class's constructor leaves the field None (every store to it in __init__ is the
        constant None) and its annotation, if any, admits None."""
        cache = self.__dict__.setdefault("_optfield", {})
        k = (ci, attr)
        if k in cache:
            return cache[k]
        r = False
        try:
            for c in self.model.mro(ci):
                init = getattr(c, "methods", {}).get("__init__")
                if init is None:
                    continue
                vals = []
                for x in A.walk_no_nested(init.node):
                    if isinstance(x, (ast.Assign, ast.AnnAssign)) and getattr(x, "value", None) is not None:
                        for t in A.store_targets(x):
                            if A.dotted(t) == f"self.{attr}":
                                vals.append(x.value)
                if vals:
                    r = all(isinstance(v, ast.Constant) and v.value is None for v in vals)
                    break
        except Exception:
            r = False
        cache[k] = r
        return r

    def _is_message_class(self, ci) -> bool:
        try:
            return any(b.name == "Message" for b in self.model.mro(ci))
        except Exception:
            return False

    def _none_guarded(self, o: ast.Attribute, n: ast.AST, f: FuncInfo) -> bool:
        """The operand is known to be set: an enclosing test names it (truthiness, `is not None`,
        hasattr)."""
        txt = ast.unparse(o)
        par = A.parents(f.node)
        cur = n
        while cur in par:
            p_ = par[cur]
            if isinstance(p_, (ast.If, ast.While, ast.IfExp)) and cur is not p_.test:
                tt = ast.unparse(p_.test)
                if txt in tt or f"getattr({ast.unparse(o.value)}, '{o.attr}'" in tt:
                    return True
            if isinstance(p_, ast.BoolOp) and isinstance(p_.op, ast.And):
                idx = p_.values.index(cur) if cur in p_.values else 0
                if any(txt in ast.unparse(v) for v in p_.values[:idx]):
                    return True
            # a guard clause earlier in the same block:  `if not isinstance(x, T): ... return`
            # / `if x is None: return` - what follows runs with x set
            for fld in ("body", "orelse", "finalbody"):
                blk = getattr(p_, fld, None)
                if isinstance(blk, list) and cur in blk:
                    for prev in blk[:blk.index(cur)]:
                        if isinstance(prev, ast.If) and not prev.orelse and prev.body \
                                and isinstance(prev.body[-1], (ast.Return, ast.Raise, ast.Continue, ast.Break)):
                            t = prev.test
                            neg_inst = isinstance(t, ast.UnaryOp) and isinstance(t.op, ast.Not) \
                                and isinstance(t.operand, ast.Call) and A.call_name(t.operand) == "isinstance" \
                                and t.operand.args and ast.unparse(t.operand.args[0]) == txt
                            is_none = isinstance(t, ast.Compare) and len(t.ops) == 1 and isinstance(t.ops[0], ast.Is) \
                                and ast.unparse(t.left) == txt and isinstance(t.comparators[0], ast.Constant) \
                                and t.comparators[0].value is None
                            falsy = isinstance(t, ast.UnaryOp) and isinstance(t.op, ast.Not) \
                                and ast.unparse(t.operand) == txt
                            if neg_inst or is_none or falsy:
                                return True
            cur = p_
        return False

    def _buffer_index(self, n: ast.Subscript, f: FuncInfo) -> set[str]:
        """IndexError for indexing (not slicing) a byte buffer: received payloads may be shorter
        than any fixed position (a slice never raises, an index does)."""
        if self.profile == "faults" or isinstance(n.slice, ast.Slice):
            return set()
        if isinstance(n.slice, ast.Tuple):
            return set()
        from .typesx import expr_type
        try:
            t = expr_type(self.model, f, n.value)
        except Exception:
            return set()
        if t in ("ext:bytes", "ext:bytearray", "ext:memoryview"):
            self._note(f, n, ["IndexError"], f"`{ast.unparse(n)}` indexes a byte buffer that may be shorter")
            return {"IndexError"}
        return set()

    def recv_class(self, e: ast.expr, f: FuncInfo) -> ClassInfo | str | None:
        """Best-effort static type of a receiver expression."""
        from .typesx import expr_type
        return expr_type(self.model, f, e)

    def _uncopyable(self, e: ast.expr, f: FuncInfo):
        """Name of the repository class of *e* if its instances hold a lock and the class does
        not say how to copy them."""
        from .typesx import expr_type
        t = expr_type(self.model, f, e)
        if t is None and isinstance(e, ast.Name):
            # a loop variable over .items()/.values() of an annotated container
            for x in A.walk_no_nested(f.node):
                if isinstance(x, ast.For):
                    names = [n.id for n in ast.walk(x.target) if isinstance(n, ast.Name)]
                    if e.id in names:
                        it = x.iter
                        if isinstance(it, ast.Call) and isinstance(it.func, ast.Attribute) \
                                and it.func.attr in ("items", "values"):
                            from .typesx import _container_elem
                            t = _container_elem(self.model, f, it.func.value, "value", 3)
        if t is None or isinstance(t, str):
            return None
        for ci in self.model.mro(t):
            if any(m in ci.methods for m in ("__deepcopy__", "__getstate__", "__reduce__", "__copy__")):
                return None
        for ci in self.model.mro(t):
            init = ci.methods.get("__init__")
            if init is None:
                continue
            for n in ast.walk(init.node):
                if isinstance(n, ast.Call) and A.call_name(n) in (
                        "threading.Lock", "threading.RLock", "Lock", "RLock", "threading.Condition",
                        "threading.Event", "threading.Semaphore"):
                    return t.name
        return None

    def _lacking_attrs(self, recv: ast.expr, n: ast.AST, f: FuncInfo) -> set[str]:
        """Names N for which an enclosing test establishes `not hasattr(<recv>, "N")` at *n*
        (the receiver's class then defines no attribute N: implementations in classes that do
        are not candidates)."""
        want = ast.unparse(recv)
        par = A.parents(f.node)
        out: set[str] = set()

        def conj(t):
            if isinstance(t, ast.BoolOp) and isinstance(t.op, ast.And):
                for v in t.values:
                    yield from conj(v)
            else:
                yield t
        cur = n
        while cur in par:
            p_ = par[cur]
            if isinstance(p_, (ast.If, ast.While)) and any(cur is b for b in p_.body):
                for t in conj(p_.test):
                    if isinstance(t, ast.UnaryOp) and isinstance(t.op, ast.Not) and isinstance(t.operand, ast.Call) \
                            and A.call_name(t.operand) == "hasattr" and len(t.operand.args) == 2 \
                            and ast.unparse(t.operand.args[0]) == want \
                            and isinstance(t.operand.args[1], ast.Constant):
                        out.add(t.operand.args[1].value)
            cur = p_
        return out

    def _class_defines(self, ci, name: str) -> bool:
        return any(name in c.class_assigns or name in getattr(c, "annotations", {}) for c in self.model.mro(ci))

    def _prop_load(self, n: ast.Attribute, f: FuncInfo) -> set[str]:
        cands = self.props_by_name.get(n.attr)
        if not cands:
            return set()
        rc = self.recv_class(n.value, f)
        if isinstance(rc, str):
            return set()               # external object
        lacking = self._lacking_attrs(n.value, n, f)
        if lacking:
            cands = [p for p in cands if p.cls is None
                     or not any(self._class_defines(p.cls, a) for a in lacking)]
        out = set()
        for p in self._dispatch(cands, rc):
            r = self._callee(p)
            out |= r
            self._note(f, n, r, f"reads property {p.qualname}", p)
        return out

    def _setter(self, t: ast.Attribute, f: FuncInfo) -> set[str]:
        cands = self.setters_by_name.get(t.attr)
        if not cands:
            return set()
        rc = self.recv_class(t.value, f)
        if isinstance(rc, str):
            return set()
        out = set()
        for p in self._dispatch(cands, rc):
            r = self._callee(p)
            out |= r
            self._note(f, t, r, f"stores property {p.qualname}", p)
        return out

    def _dispatch(self, cands: list[FuncInfo], rc) -> list[FuncInfo]:
        """Candidates restricted by the receiver class (CHA below it)."""
        if rc is None:
            return cands
        res = []
        mro = self.model.mro(rc)
        # the implementation the receiver class itself resolves to
        for c in mro:
            hit = [p for p in cands if p.cls is c]
            if hit:
                res += hit
                break
        # overrides in subclasses
        for p in cands:
            if p.cls is not None and p.cls is not rc and rc in self.model.mro(p.cls) \
                    and p not in res:
                res.append(p)
        return res

    def _call(self, c: ast.Call, f: FuncInfo) -> set[str]:
        r = self._call0(c, f) | self._optional_arg_flow(c, f)
        # bytes.decode / str.encode with a lenient error handler cannot fail
        if isinstance(c.func, ast.Attribute) and c.func.attr in ("decode", "encode") and any(
                k.arg == "errors" and isinstance(k.value, ast.Constant)
                and k.value.value in ("replace", "ignore", "backslashreplace", "surrogateescape")
                for k in c.keywords):
            r = r - {"UnicodeDecodeError", "UnicodeEncodeError"}
        return r

    def _optional_arg_flow(self, c: ast.Call, f: FuncInfo) -> set[str]:
        """An attribute of a received/typed message (None when the AVP is absent) is passed to a
        repository function that does arithmetic or an ordering comparison on that parameter."""
        if self.profile == "faults" or not c.args:
            return set()
        opt = []
        from .typesx import expr_type
        for i, a in enumerate(c.args):
            if isinstance(a, ast.Attribute) and isinstance(a.value, ast.Name) and a.attr != "header":
                try:
                    t = expr_type(self.model, f, a.value)
                except Exception:
                    t = None
                if isinstance(t, ClassInfo) and self._is_message_class(t) and not self._none_guarded(a, c, f):
                    opt.append((i, a))
        if not opt:
            return set()
        try:
            callees = self.resolve_call(c, f)
        except Exception:
            return set()
        for g in callees:
            params = [x.arg for x in g.node.args.args]
            if params and params[0] in ("self", "cls"):
                params = params[1:]
            for i, a in opt:
                if i >= len(params):
                    continue
                p_ = params[i]
                for n in A.walk_no_nested(g.node):
                    ops = []
                    if isinstance(n, ast.BinOp):
                        ops = [n.left, n.right]
                    elif isinstance(n, ast.Compare) and any(
                            isinstance(o, (ast.Lt, ast.Gt, ast.LtE, ast.GtE)) for o in n.ops):
                        ops = [n.left] + list(n.comparators)
                    if any(isinstance(o, ast.Name) and o.id == p_ for o in ops):
                        self._note(f, c, ["TypeError"],
                                   f"`{ast.unparse(a)}` (None when the AVP is absent) is passed to "
                                   f"{g.qualname}, which computes `{ast.unparse(n)[:60]}`", g)
                        return {"TypeError"}
        return set()

    def _call0(self, c: ast.Call, f: FuncInfo) -> set[str]:
        name = A.call_name(c)
        fn = c.func
        if self._subst and isinstance(fn, ast.Name) and fn.id == self._subst[0]:
            r = set(self._subst[1])
            return r
        if name.startswith(NORAISE_PREFIXES):
            return set()
        # user callbacks
        tail = name.rsplit(".", 1)[-1]
        if tail in USER_CALLBACKS and not self._is_repo_only_impl(tail):
            self._note(f, c, ["ANY"], f"user callback {name}")
            return {"ANY"}
        if tail in USER_CALLBACKS:
            # repo has overridable implementations: user subclasses may raise anything
            self._note(f, c, ["ANY"], f"user callback {name}")
            return {"ANY"}
        full = self._qual_external(fn, f)
        if full in ("copy.deepcopy", "pickle.dumps") and c.args:
            r = self._uncopyable(c.args[0], f)
            if r:
                self._note(f, c, ["TypeError"], f"{full}() of an object of class {r}, which holds a "
                           f"lock (threading.Lock/RLock cannot be copied or pickled) and defines no "
                           f"__deepcopy__ / __getstate__")
                return {"TypeError"}
        if self.profile == "faults" and full in FAULT_FUNC_PRIMS:
            r = set(FAULT_FUNC_PRIMS[full])
            self._note(f, c, r, f"{full}(...)")
            return r
        if self.profile == "faults" and full in FUNC_PRIMS:
            return set()
        if full in FUNC_PRIMS:
            r = set(FUNC_PRIMS[full])
            if full.endswith("fromtimestamp") and c.args:
                iv = self.interval(c.args[0], f)
                if iv is not None and TS_MIN <= iv[0] and iv[1] <= TS_MAX:
                    self.suppressed.append(
                        (f"{f.module.relpath}:{c.lineno}", f.qualname, full, iv))
                    return set()
            self._note(f, c, r, f"{full}(...)")
            return r
        # name call
        if isinstance(fn, ast.Name):
            b = f.module.lookup(fn.id)
            if b is not None and b.kind == "func":
                g = b.module.funcs.get(b.node.name)
                if g is not None:
                    r = set(self._callee(g))
                    self._note(f, c, r, f"calls {g.qualname}", g)
                    return r
            ci = f.module.lookup_class(fn.id)
            if ci is not None:
                return self._ctor(ci, c, f)
            if self._is_local(fn.id, f):
                return self._local_class_call(fn.id, c, f)
            if fn.id == "int" and c.args:
                # int(str) may raise; int(float)/int(int) does not
                a0 = c.args[0]
                if isinstance(a0, (ast.Call,)) and A.call_name(a0) in ("time.time",):
                    return set()
                if isinstance(a0, ast.BinOp) or isinstance(a0, ast.Constant):
                    return set()
                if isinstance(a0, ast.Name) and self._looks_str(a0, f):
                    self._note(f, c, ["ValueError"], "int(<str>)")
                    return {"ValueError"}
                return set()
            return set()
        if isinstance(fn, ast.Attribute):
            meth = fn.attr
            base = fn.value
            # super().m()
            if isinstance(base, ast.Call) and A.call_name(base) == "super" and f.cls is not None:
                for cl in self.model.mro(f.cls)[1:]:
                    if meth in cl.methods:
                        g = cl.methods[meth]
                        r = set(self._callee(g))
                        self._note(f, c, r, f"calls {g.qualname}", g)
                        return r
                return set()
            # Class.method(...) / module.func(...)
            if isinstance(base, ast.Name):
                b = f.module.lookup(base.id)
                if b is not None and b.kind == "module":
                    g = b.module.funcs.get(meth)
                    if g is not None:
                        r = set(self._callee(g))
                        self._note(f, c, r, f"calls {g.qualname}", g)
                        return r
                    ci = b.module.classes.get(meth)
                    if ci is not None:
                        return self._ctor(ci, c, f)
                ci = f.module.lookup_class(base.id) if base.id not in ("self", "cls") else None
                if ci is not None and not self._is_local(base.id, f):
                    g = self.model.find_method(ci, meth)
                    if g is not None:
                        r = set(self._callee(g))
                        self._note(f, c, r, f"calls {g.qualname}", g)
                        return r
            if meth in self.callable_attrs and meth not in self.by_name:
                out = set()
                for g in self.callable_attrs[meth]:
                    r = self._callee(g)
                    out |= r
                    self._note(f, c, r, f"calls {g.qualname} (through attribute .{meth})", g)
                return out
            rc = self.recv_class(base, f)
            if isinstance(rc, str):
                r = set(self._mprims().get(meth, set()))
                if meth in ("get", "put", "get_nowait", "put_nowait") and rc.startswith("queue."):
                    r = self._queue_raises(meth, c)
                self._note(f, c, r, f"{rc}.{meth}(...)")
                return r
            cands = self.by_name.get(meth, [])
            if isinstance(base, ast.Name) and base.id in ("self", "cls") and f.cls is not None:
                rc = f.cls
            if cands and (rc is not None):
                picked = self._dispatch(cands, rc)
                if picked:
                    out = set()
                    for g in picked:
                        r = self._callee(g)
                        out |= r
                        self._note(f, c, r, f"calls {g.qualname}", g)
                    return out
                # method not found on the receiver class: name-mangled private?
                if meth.startswith("__") and f.cls is not None:
                    g = f.cls.methods.get(meth)
                    if g is not None:
                        r = set(self._callee(g))
                        self._note(f, c, r, f"calls {g.qualname}", g)
                        return r
                # inherited from a base class outside the package (e.g. Thread.start on a
                # StoppableThread): the primitive's raise set applies
                if isinstance(rc, ClassInfo) and self.model.find_method(rc, meth) is None \
                        and any(b not in [x.name for x in self.model.bases(rc)]
                                for b in self.model.base_names(rc)):
                    r = set(self._mprims().get(meth, set()))
                    if r:
                        self._note(f, c, r, f"{rc.name}.{meth}(...) inherited from an external base")
                    return r
            if cands and rc is None and meth not in METHOD_PRIMS \
                    and meth not in ("get", "put", "close", "start", "stop", "join", "set",
                                     "clear", "wait", "append", "update", "items", "values",
                                     "keys", "pop", "add", "lower", "split", "hex", "format"):
                out = set()
                for g in cands:
                    r = self._callee(g)
                    out |= r
                    self._note(f, c, r, f"calls {g.qualname} (by name)", g)
                return out
            if meth in ("get", "put", "get_nowait", "put_nowait") and rc is None \
                    and ("queue" in ast.unparse(base).lower() or "slots" in ast.unparse(base)):
                r = self._queue_raises(meth, c)
                self._note(f, c, r, f"queue.{meth}(...)")
                return r
            if meth in self._mprims() and not cands:
                r = set(self._mprims()[meth])
                self._note(f, c, r, f".{meth}(...)")
                return r
            if meth in self._mprims() and cands and rc is None:
                # ambiguous (e.g. conn.close vs socket.close): union
                out = set(self._mprims()[meth])
                for g in cands:
                    out |= self._callee(g)
                    self._note(f, c, self._callee(g), f"calls {g.qualname} (by name)", g)
                self._note(f, c, self._mprims()[meth], f".{meth}(...)")
                return out
            if cands and rc is None:
                out = set()
                for g in cands:
                    r = self._callee(g)
                    out |= r
                    self._note(f, c, r, f"calls {g.qualname} (by name)", g)
                return out
        return set()

    def _local_class_call(self, name: str, c: ast.Call, f: FuncInfo) -> set[str]:
        """Call of a local that holds a class object (msg_type(header, avps)):
        union over the constructors of the whole hierarchy of any class
        assigned to it."""
        roots: list[ClassInfo] = []
        for n in A.walk_no_nested(f.node):
            if isinstance(n, (ast.Assign, ast.AnnAssign)) and getattr(n, "value", None) is not None:
                if any(isinstance(t, ast.Name) and t.id == name for t in A.store_targets(n)):
                    v = n.value
                    ci = None
                    if isinstance(v, ast.Name):
                        ci = f.module.lookup_class(v.id)
                    elif ast.unparse(v) in ("self.__class__", "cls", "type(self)") and f.cls:
                        ci = f.cls
                    if ci is not None:
                        root = self.model.mro(ci)[-1]
                        if root not in roots:
                            roots.append(root)
        out: set[str] = set()
        for root in roots:
            for ci in [root] + self.model.subclasses(root):
                for m in ("__init__", "__post_init__"):
                    g = ci.methods.get(m)
                    if g is not None:
                        r = self._callee(g)
                        out |= r
                        self._note(f, c, r, f"constructs {ci.name} via `{name}` ({g.qualname})", g)
        return out

    def interval(self, e: ast.expr, f: FuncInfo, depth: int = 4):
        """[lo, hi] of an integer expression built from struct.unpack results,
        folded constants and + / -; None when unknown."""
        if depth < 0:
            return None
        v = self.model.try_fold(e, f.module, f.cls, default=None)
        if isinstance(v, int) and not isinstance(v, bool):
            return (v, v)
        if isinstance(e, ast.Name):
            defs = [n for n in A.walk_no_nested(f.node)
                    if isinstance(n, (ast.Assign, ast.AnnAssign)) and getattr(n, "value", None) is not None
                    and any(isinstance(t, ast.Name) and t.id == e.id for t in A.store_targets(n))]
            augs = [n for n in A.walk_no_nested(f.node) if isinstance(n, ast.AugAssign)
                    and isinstance(n.target, ast.Name) and n.target.id == e.id]
            if len(defs) == 1 and not augs:
                return self.interval(defs[0].value, f, depth - 1)
            return None
        if isinstance(e, ast.Subscript) and isinstance(e.value, ast.Call) \
                and self._qual_external(e.value.func, f) == "struct.unpack" and e.value.args:
            fmt = self.model.try_fold(e.value.args[0], f.module, f.cls)
            idx = self.model.try_fold(e.slice, f.module, f.cls)
            if isinstance(fmt, str) and idx == 0:
                codes = fmt.lstrip("!><=@")
                if len(codes) == 1 and codes in STRUCT_RANGES:
                    return STRUCT_RANGES[codes]
            return None
        if isinstance(e, ast.BinOp) and isinstance(e.op, (ast.Add, ast.Sub)):
            a = self.interval(e.left, f, depth - 1)
            b = self.interval(e.right, f, depth - 1)
            if a is None or b is None:
                return None
            if isinstance(e.op, ast.Add):
                return (a[0] + b[0], a[1] + b[1])
            return (a[0] - b[1], a[1] - b[0])
        return None

    # -- call graph ------------------------------------------------------------
    def resolve_call(self, c: ast.Call, f: FuncInfo) -> list[FuncInfo]:
        """Repository functions a call may invoke (same resolution as _call)."""
        fn = c.func
        out: list[FuncInfo] = []
        if isinstance(fn, ast.Name):
            if self._is_local(fn.id, f):
                return out
            b = f.module.lookup(fn.id)
            if b is not None and b.kind == "func":
                g = b.module.funcs.get(b.node.name)
                return [g] if g is not None else []
            ci = f.module.lookup_class(fn.id)
            if ci is not None:
                for m in ("__init__", "__post_init__"):
                    g = self.model.find_method(ci, m)
                    if g is not None:
                        out.append(g)
            return out
        if not isinstance(fn, ast.Attribute):
            return out
        meth, base = fn.attr, fn.value
        if isinstance(base, ast.Call) and A.call_name(base) == "super" and f.cls is not None:
            for cl in self.model.mro(f.cls)[1:]:
                if meth in cl.methods:
                    return [cl.methods[meth]]
            return out
        if isinstance(base, ast.Name):
            b = f.module.lookup(base.id)
            if b is not None and b.kind == "module":
                g = b.module.funcs.get(meth)
                if g is not None:
                    return [g]
                ci = b.module.classes.get(meth)
                if ci is not None:
                    return [g for g in (self.model.find_method(ci, m)
                                        for m in ("__init__", "__post_init__")) if g]
            ci = f.module.lookup_class(base.id) if base.id not in ("self", "cls") else None
            if ci is not None and not self._is_local(base.id, f):
                g = self.model.find_method(ci, meth)
                return [g] if g is not None else []
        if meth in self.callable_attrs and meth not in self.by_name:
            return list(self.callable_attrs[meth])
        rc = self.recv_class(base, f)
        if isinstance(rc, str):
            return out
        cands = self.by_name.get(meth, [])
        if isinstance(base, ast.Name) and base.id in ("self", "cls") and f.cls is not None:
            rc = f.cls
        if cands and rc is not None:
            picked = self._dispatch(cands, rc)
            if picked:
                return picked
            if meth.startswith("__") and f.cls is not None and meth in f.cls.methods:
                return [f.cls.methods[meth]]
            return out
        return list(cands)

    def callees(self, f: FuncInfo) -> list[FuncInfo]:
        key = id(f.node)
        cache = self.__dict__.setdefault("_callees", {})
        if key not in cache:
            out: list[FuncInfo] = []
            for n in A.walk_no_nested(f.node):
                if isinstance(n, ast.Call):
                    for g in self.resolve_call(n, f):
                        if g not in out:
                            out.append(g)
                elif isinstance(n, ast.Attribute) and isinstance(n.ctx, ast.Load) \
                        and n.attr in self.props_by_name:
                    rc = self.recv_class(n.value, f)
                    if not isinstance(rc, str):
                        for g in self._dispatch(self.props_by_name[n.attr], rc):
                            if g not in out:
                                out.append(g)
            cache[key] = out
        return cache[key]

    def reachable_funcs(self, roots: list[FuncInfo], depth: int = 12) -> list[FuncInfo]:
        seen: list[FuncInfo] = []
        todo = [(r, 0) for r in roots]
        while todo:
            g, d = todo.pop()
            if g in seen or d > depth:
                continue
            seen.append(g)
            for h in self.callees(g):
                todo.append((h, d + 1))
        return seen

    def _mprims(self) -> dict:
        return FAULT_METHOD_PRIMS if self.profile == "faults" else METHOD_PRIMS

    def _queue_raises(self, meth: str, c: ast.Call) -> set[str]:
        blocking = True
        timeout = False
        args = list(c.args)
        if meth.endswith("_nowait"):
            blocking = False
        else:
            pos = 0 if meth == "get" else 1
            if len(args) > pos:
                v = args[pos]
                if isinstance(v, ast.Constant) and v.value is False:
                    blocking = False
            if len(args) > pos + 1:
                timeout = True
            for k in c.keywords:
                if k.arg == "block" and isinstance(k.value, ast.Constant) and k.value.value is False:
                    blocking = False
                if k.arg == "timeout":
                    timeout = True
        if not blocking or timeout:
            return {"queue.Empty"} if meth.startswith("get") else {"queue.Full"}
        return set()

    def _ctor(self, ci: ClassInfo, c: ast.Call, f: FuncInfo) -> set[str]:
        out = set()
        if ci.name in self.exc_classes:
            return out
        ename = {b for k in self.model.mro(ci) for b in self.model.base_names(k)}
        if ename & {"Enum", "IntEnum", "Flag", "StrEnum", "enum.Enum", "enum.IntEnum",
                    "enum.Flag", "enum.StrEnum"} and len(c.args) == 1:
            # Enum(value) is a lookup: ValueError for a value that is no member (for a Flag: that
            # has bits outside the defined ones) - unless the value is one of the literal members
            members = [self.model.try_fold(v, ci.module, ci) for v in ci.class_assigns.values()]
            k = self.model.try_fold(c.args[0], f.module, f.cls)
            # Flag(x & MASK) with MASK made of member bits only is always a (composite) member
            if ename & {"Flag", "enum.Flag"} and isinstance(c.args[0], ast.BinOp) \
                    and isinstance(c.args[0].op, ast.BitAnd) and all(isinstance(m_, int) for m_ in members):
                allbits = 0
                for m_ in members:
                    allbits |= m_
                for side in (c.args[0].left, c.args[0].right):
                    mk = self.model.try_fold(side, f.module, f.cls)
                    if isinstance(mk, int) and mk >= 0 and mk & ~allbits == 0:
                        return out
            if self.profile != "faults" and (k is None or k not in members):
                self._note(f, c, {"ValueError"}, f"{ci.name}({ast.unparse(c.args[0])[:40]}): enum lookup "
                           f"of a value that need not be a member (members: {members[:6]})")
                out.add("ValueError")
            return out
        for m in ("__init__", "__post_init__"):
            g = self.model.find_method(ci, m)
            if g is not None:
                r = self._callee(g)
                out |= r
                self._note(f, c, r, f"constructs {ci.name} ({g.qualname})", g)
        return out

    def _is_repo_only_impl(self, name: str) -> bool:
        return False

    def _qual_external(self, fn: ast.expr, f: FuncInfo) -> str:
        """'struct.unpack' for module-attribute calls on external modules."""
        parts = []
        e = fn
        while isinstance(e, ast.Attribute):
            parts.append(e.attr)
            e = e.value
        if not isinstance(e, ast.Name):
            return ""
        b = f.module.lookup(e.id)
        if b is None:
            return ""
        if b.kind == "extmodule":
            return ".".join([b.target] + parts[::-1])
        if b.kind == "extattr":
            return ".".join([b.target, b.attr] + parts[::-1])
        if e.id in ("bytes", "int", "str"):
            return ".".join([e.id] + parts[::-1])
        return ""

    def _is_local(self, name: str, f: FuncInfo) -> bool:
        cache = self.__dict__.setdefault("_locals_cache", {})
        loc = cache.get(id(f.node))
        if loc is None:
            loc = {a.arg for a in f.node.args.args + f.node.args.kwonlyargs}
            for n in A.walk_no_nested(f.node):
                if isinstance(n, ast.Name) and isinstance(n.ctx, ast.Store):
                    loc.add(n.id)
            cache[id(f.node)] = loc
        return name in loc

    def _looks_str(self, n: ast.Name, f: FuncInfo) -> bool:
        for a in f.node.args.args:
            if a.arg == n.id and a.annotation is not None:
                return ast.unparse(a.annotation).strip("'\"") == "str"
        # local produced by str.split
        for x in A.walk_no_nested(f.node):
            if isinstance(x, ast.Assign) and ".split(" in ast.unparse(x.value):
                for t in x.targets:
                    if n.id in ast.unparse(t):
                        return True
        return False

    # -- statement level helper for the CFG ------------------------------------
    def node_raises(self, node_exprs: list[ast.AST], f: FuncInfo, stmt: ast.AST | None = None) -> set[str]:
        self._cur = f
        self._cur_trace = {}
        out = set()
        if stmt is not None and isinstance(stmt, ast.stmt):
            for t in A.store_targets(stmt):
                if isinstance(t, ast.Attribute):
                    out |= self._setter(t, f)
        for e in node_exprs:
            out |= self._expr(e, f)
        return out


def fault_effects_of(model: SourceModel) -> Effects:
    e = getattr(model, "_fault_effects", None)
    if e is None:
        e = Effects(model, profile="faults", base=effects_of(model))
        model._fault_effects = e
    return e


def effects_of(model: SourceModel) -> Effects:
    e = getattr(model, "_effects", None)
    if e is None:
        e = Effects(model)
        model._effects = e
    return e
